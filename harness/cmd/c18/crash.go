package main

// Crash phase: one Put/Delete is executed by a child process (this binary in
// --crashchild mode) under tools/crashat, which kills it before its k-th
// file-system-mutating system call, for every k.

import (
	"bufio"
	"context"
	"encoding/json"
	"errors"
	"fmt"
	"math/rand/v2"
	"os"
	"os/exec"
	"path/filepath"
	"sort"
	"strconv"
	"strings"
	"time"

	"oras.land/oras-go/v2/registry/remote/credentials"
	"oras.land/oras-go/v2/verifharness/mon"
	"oras.land/oras-go/v2/verifharness/worker"
)

type crashOp struct {
	Kind      string `json:"kind"` // put | delete
	Addr      string `json:"addr"`
	Cred      cred   `json:"cred"`
	ExpectErr bool   `json:"expect_err,omitempty"`
}

type crashScript struct {
	Prefix []crashOp `json:"prefix"`
	Op     crashOp   `json:"op"`
}

func applyOp(st credentials.Store, op crashOp) error {
	var err error
	switch op.Kind {
	case "put":
		err = st.Put(ctx, op.Addr, op.Cred.lib())
	case "delete":
		err = st.Delete(ctx, op.Addr)
	default:
		return fmt.Errorf("unknown op %q", op.Kind)
	}
	if op.ExpectErr {
		if errors.Is(err, credentials.ErrBadCredentialFormat) {
			return nil
		}
		return fmt.Errorf("expected ErrBadCredentialFormat, got %v", err)
	}
	return err
}

// crashChild: --crashchild <script> <configpath> [prefixonly]
func crashChild(args []string) {
	if len(args) < 2 {
		fmt.Fprintln(os.Stderr, "usage: --crashchild script configpath [prefixonly]")
		os.Exit(4)
	}
	b, err := os.ReadFile(args[0])
	if err != nil {
		fmt.Fprintln(os.Stderr, err)
		os.Exit(4)
	}
	var sc crashScript
	if err := json.Unmarshal(b, &sc); err != nil {
		fmt.Fprintln(os.Stderr, err)
		os.Exit(4)
	}
	st, err := credentials.NewFileStore(args[1])
	if err != nil {
		fmt.Fprintln(os.Stderr, "open:", err)
		os.Exit(5)
	}
	for _, op := range sc.Prefix {
		if err := applyOp(st, op); err != nil {
			fmt.Fprintln(os.Stderr, "prefix:", err)
			os.Exit(5)
		}
	}
	if len(args) > 2 && args[2] == "prefixonly" {
		os.Exit(0)
	}
	mon.Mark(1)
	err = applyOp(st, sc.Op)
	mon.Mark(2)
	if err != nil {
		fmt.Fprintln(os.Stderr, "op:", err)
		os.Exit(3)
	}
	os.Exit(0)
}

var crashTemplates = []string{"put-absent-file", "put-absent-dir", "put-new-entry", "put-overwrite", "delete-one-of-many", "delete-only-entry",
	"prefix-then-put", "prefix-then-delete", "put-big-document", "delete-noop", "put-colon-username",
	"put-via-symlink", "delete-via-symlink", "put-same-as-legacy-key"}

func runCrash(i int, rng *rand.Rand) (res worker.Result) {
	tmpl := crashTemplates[i%len(crashTemplates)]
	_, pool, allForms := genPool(rng)
	var d caseDoc
	var sc crashScript
	existing := docOpts{mustExist: true, noHelpers: rng.IntN(2) == 0, minEntries: 2, minUnknown: 1, entryKeys: allForms}
	pickKey := func(doc map[string]any) string {
		a, _ := doc["auths"].(map[string]any)
		var ks []string
		for k := range a {
			ks = append(ks, k)
		}
		if len(ks) == 0 {
			return pool[0]
		}
		sort.Strings(ks)
		return ks[rng.IntN(len(ks))]
	}
	freshAddr := func(doc map[string]any) string {
		a, _ := doc["auths"].(map[string]any)
		for _, p := range pool {
			if _, ok := a[p]; !ok {
				return p
			}
		}
		return "fresh.example:1"
	}
	switch tmpl {
	case "put-absent-file":
		d = caseDoc{Absent: true, Shape: "absent"}
		sc.Op = crashOp{Kind: "put", Addr: pool[rng.IntN(len(pool))], Cred: genCred(rng)}
	case "put-absent-dir":
		d = caseDoc{Absent: true, AbsentDir: true, Shape: "absentdir"}
		sc.Op = crashOp{Kind: "put", Addr: pool[rng.IntN(len(pool))], Cred: genCred(rng)}
	case "put-new-entry":
		d = genDoc(rng, existing)
		sc.Op = crashOp{Kind: "put", Addr: freshAddr(d.Doc), Cred: genCred(rng)}
	case "put-overwrite":
		d = genDoc(rng, existing)
		sc.Op = crashOp{Kind: "put", Addr: pickKey(d.Doc), Cred: genCred(rng)}
	case "delete-one-of-many":
		d = genDoc(rng, existing)
		sc.Op = crashOp{Kind: "delete", Addr: pickKey(d.Doc)}
	case "delete-only-entry":
		d = caseDoc{Absent: true, Shape: "absent"}
		a := pool[rng.IntN(len(pool))]
		sc.Prefix = []crashOp{{Kind: "put", Addr: a, Cred: genCred(rng)}}
		sc.Op = crashOp{Kind: "delete", Addr: a}
	case "prefix-then-put", "prefix-then-delete":
		d = genDoc(rng, docOpts{entryKeys: allForms, minUnknown: rng.IntN(2)})
		n := 1 + rng.IntN(3)
		var put []string
		for j := 0; j < n; j++ {
			a := pool[rng.IntN(len(pool))]
			if j > 0 && rng.IntN(3) == 0 {
				sc.Prefix = append(sc.Prefix, crashOp{Kind: "delete", Addr: a})
				continue
			}
			sc.Prefix = append(sc.Prefix, crashOp{Kind: "put", Addr: a, Cred: genCred(rng)})
			put = append(put, a)
		}
		if tmpl == "prefix-then-put" {
			sc.Op = crashOp{Kind: "put", Addr: pool[rng.IntN(len(pool))], Cred: genCred(rng)}
		} else {
			sc.Op = crashOp{Kind: "delete", Addr: put[len(put)-1]}
		}
	case "put-big-document":
		o := existing
		o.bigDocument = true
		d = genDoc(rng, o)
		sc.Op = crashOp{Kind: "put", Addr: pool[rng.IntN(len(pool))], Cred: genCred(rng)}
	case "put-via-symlink":
		d = genDoc(rng, existing)
		d.setLink(linkKinds[(i/len(crashTemplates))%len(linkKinds)])
		sc.Op = crashOp{Kind: "put", Addr: pool[rng.IntN(len(pool))], Cred: genCred(rng)}
	case "delete-via-symlink":
		d = genDoc(rng, existing)
		d.setLink(linkKinds[(i/len(crashTemplates))%len(linkKinds)])
		sc.Op = crashOp{Kind: "delete", Addr: pickKey(d.Doc)}
	case "put-same-as-legacy-key":
		// the bare host has no entry, a legacy URL key holds X: Put(host, X) must create the exact entry
		d = genDoc(rng, existing)
		h := toHost(pool[0])
		a := d.Doc["auths"].(map[string]any)
		for k := range a {
			if toHost(k) == h {
				delete(a, k)
			}
		}
		x := genCred(rng)
		x.U = "again" + x.U
		a[forms(h)[1+rng.IntN(len(forms(h))-1)]] = entryFor(x)
		d.retext()
		sc.Op = crashOp{Kind: "put", Addr: h, Cred: x}
	case "delete-noop":
		d = genDoc(rng, existing)
		sc.Op = crashOp{Kind: "delete", Addr: "absent.example:9"}
	case "put-colon-username":
		d = genDoc(rng, existing)
		c := genCred(rng)
		c.U = "co:lon"
		sc.Op = crashOp{Kind: "put", Addr: pool[rng.IntN(len(pool))], Cred: c, ExpectErr: true}
	}

	if d.Link == "" && !d.AbsentDir && rng.IntN(4) == 0 {
		d.setLink(linkKinds[rng.IntN(len(linkKinds))]) // with an absent document: a dangling link
	}
	base, err := os.MkdirTemp("", "verif-c18-crash-")
	if err != nil {
		res.Violate("harness:mkdtemp", err.Error(), nil)
		return
	}
	defer os.RemoveAll(base)
	scriptPath := filepath.Join(base, "script.json")
	sb, _ := json.Marshal(sc)
	if err := os.WriteFile(scriptPath, sb, 0o600); err != nil {
		res.Violate("harness:script", err.Error(), nil)
		return
	}
	wit := func(extra map[string]any) map[string]any {
		w := map[string]any{"template": tmpl, "document": string(clip(d.Text, 4000)), "doc_state": d.Shape, "mode": fmt.Sprintf("%o", d.Mode), "config_path_is_symlink": d.Link, "script": sc}
		for k, v := range extra {
			w[k] = v
		}
		return w
	}
	exe, err := os.Executable()
	if err != nil {
		res.Violate("harness:executable", err.Error(), nil)
		return
	}
	crashat := os.Getenv("VERIF_CRASHAT")
	nrun := 0
	setup := func() (string, error) {
		nrun++
		dir := filepath.Join(base, fmt.Sprintf("run%d", nrun))
		if err := os.Mkdir(dir, 0o700); err != nil {
			return "", err
		}
		return d.install(dir)
	}
	run := func(name string, args ...string) (int, string, error) {
		c, cancel := context.WithTimeout(ctx, 2*time.Minute)
		defer cancel()
		cmd := exec.CommandContext(c, name, args...)
		out, err := cmd.CombinedOutput()
		if c.Err() != nil {
			return -1, string(out), fmt.Errorf("timed out")
		}
		var ee *exec.ExitError
		if errors.As(err, &ee) {
			return ee.ExitCode(), string(out), nil
		}
		if err != nil {
			return -1, string(out), err
		}
		return 0, string(out), nil
	}

	// the old document: state after the prefix
	pathOld, err := setup()
	if err != nil {
		res.Violate("harness:install", err.Error(), nil)
		return
	}
	if code, out, err := run(exe, "--crashchild", scriptPath, pathOld, "prefixonly"); err != nil || code != 0 {
		k := "harness:prefix-run"
		if code == 5 {
			k = "crash:prefix-operation-failed" // the library refused to open the store or failed a prefix Put/Delete
		}
		res.Violate(k, fmt.Sprintf("prefix-only child: exit %d %v: %s", code, err, out), wit(nil))
		return
	}
	oldDoc, _, oldMode, oldPresent, err := readDoc(pathOld)
	if err != nil {
		res.Violate("file:unparseable", "after the prefix operations the file does not parse: "+err.Error(), wit(nil))
		return
	}
	// the new document: a traced run that is not killed
	pathNew, err := setup()
	if err != nil {
		res.Violate("harness:install", err.Error(), nil)
		return
	}
	logPath := filepath.Join(base, "crashat.log")
	code, out, err := run(crashat, "0", logPath, "--", exe, "--crashchild", scriptPath, pathNew)
	if err != nil || code != 0 {
		k := "harness:crashat"
		if code == 23 || code == 25 {
			k = "crash:operation-failed"
		}
		res.Violate(k, fmt.Sprintf("uninterrupted traced run: exit %d %v: %s", code, err, out), wit(nil))
		return
	}
	count, calls, err := readCrashLog(logPath)
	if err != nil {
		res.Violate("harness:crashat-log", err.Error(), wit(nil))
		return
	}
	newDoc, _, newMode, newPresent, err := readDoc(pathNew)
	if err != nil {
		res.Violate("file:unparseable", "after the uninterrupted operation the file does not parse: "+err.Error(), wit(nil))
		return
	}
	// both must be what the model says (cross-check of the two references)
	m := d.newModel()
	for _, op := range sc.Prefix {
		applyModel(m, op)
	}
	if bad := cmpModel(m, oldDoc, oldPresent, ""); bad != "" {
		res.Violate("crash:old-document-wrong", "state after the prefix: "+bad, wit(nil))
		return
	}
	mOld := m.clone()
	applyModel(m, sc.Op)
	if bad := cmpModel(m, newDoc, newPresent, sc.Op.Addr); bad != "" {
		res.Violate("crash:new-document-wrong", "state after the uninterrupted operation: "+bad, wit(nil))
		return
	}
	if newPresent && m.saves > 0 && newMode.Perm() != 0o600 {
		// reported, and the crash points are enumerated all the same
		res.Violate("file:mode", fmt.Sprintf("rewritten file has mode %o", newMode.Perm()), wit(nil))
	}
	same := oldPresent == newPresent && (!oldPresent || func() bool { k, _ := diffDocs(oldDoc, newDoc, ""); return k == "" }())

	res.Count("crash_cases", 1)
	if d.Link != "" {
		res.Count("crash_cases_with_symlinked_config_path", 1)
		if newPresent && !isLink(pathNew) && m.saves > 0 {
			res.Count("symlink_replaced_by_regular_file_on_save", 1)
		}
	}
	res.Count("crash_uninterrupted_runs_new_document", 1)
	res.Observe("crash_syscall_sequences", strings.Join(calls, ","))
	if count > 0 {
		res.Count("crash_cases_with_points", 1)
	}
	enumerated := 0
	for k := 1; k <= count; k++ {
		path, err := setup()
		if err != nil {
			res.Violate("harness:install", err.Error(), nil)
			return
		}
		code, out, err := run(crashat, strconv.Itoa(k), logPath, "--", exe, "--crashchild", scriptPath, path)
		if err != nil || (code != 10 && code != 0) {
			res.Violate("harness:crashat", fmt.Sprintf("traced run k=%d: exit %d %v: %s", k, code, err, out), wit(nil))
			return
		}
		if code == 0 {
			res.Inconc = fmt.Sprintf("crash case %d (%s): run k=%d completed although %d calls were counted before", i, tmpl, k, count)
			continue
		}
		ex := map[string]any{"killed_before_call": k, "call": calls[k-1], "calls": calls}
		gotDoc, raw, mode, present, err := readDoc(path)
		if err != nil {
			ex["file_bytes"] = string(clip(raw, 2000))
			res.Violate("crash:torn-file", fmt.Sprintf("killed before call %d (%s): the config file does not parse: %v (%d bytes)", k, calls[k-1], err, len(raw)), wit(ex))
			return
		}
		isOld, isNew := false, false
		if !present {
			isOld, isNew = !oldPresent, !newPresent
		} else {
			if oldPresent {
				kk, _ := diffDocs(oldDoc, gotDoc, "")
				isOld = kk == ""
			}
			if newPresent {
				kk, _ := diffDocs(newDoc, gotDoc, "")
				isNew = kk == ""
			}
		}
		switch {
		case !present && !isOld && !isNew:
			res.Violate("crash:file-missing", fmt.Sprintf("killed before call %d (%s): the config file is gone", k, calls[k-1]), wit(ex))
			return
		case !isOld && !isNew:
			ex["file_bytes"] = string(clip(raw, 2000))
			res.Violate("crash:neither-old-nor-new", fmt.Sprintf("killed before call %d (%s): the file is neither the old nor the new document", k, calls[k-1]), wit(ex))
			return
		}
		if present {
			perm := mode.Perm()
			okMode := perm == 0o600 || (isOld && oldPresent && perm == oldMode.Perm())
			if !okMode || !mode.IsRegular() {
				res.Violate("crash:mode", fmt.Sprintf("killed before call %d (%s): file mode %v (old %o)", k, calls[k-1], mode, oldMode.Perm()), wit(ex))
				return
			}
			if _, err := credentials.NewFileStore(path); err != nil {
				res.Violate("crash:store-unopenable", fmt.Sprintf("killed before call %d (%s): NewFileStore fails: %v", k, calls[k-1], err), wit(ex))
				return
			}
		}
		switch {
		case same:
			res.Count("crash_outcome_unchanged_op", 1)
		case isOld:
			res.Count("crash_outcome_old", 1)
		default:
			res.Count("crash_outcome_new", 1)
		}
		if ents, _ := filepath.Glob(filepath.Join(filepath.Dir(path), "oras_credstore_temp_*")); len(ents) > 0 {
			res.Count("crash_temp_leftovers", int64(len(ents)))
		}
		// continuation: life goes on in the crashed directory (whatever temporary files the
		// kill left stay there): reopen, shrink the document, grow it, shrink it again; after
		// every operation the whole file must be exactly one JSON document holding the model state
		base := m
		if isOld && !isNew {
			base = mOld
		}
		if bad, what := continueAfterCrash(path, base.clone(), pool, rng, &res); bad != "" {
			ex["continuation"] = what
			res.Violate(bad, fmt.Sprintf("killed before call %d (%s), then continued in the same directory: %s", k, calls[k-1], what), wit(ex))
			return
		}
		enumerated++
		res.Count("crash_points_enumerated", 1)
	}
	if count > 0 && enumerated == count {
		res.Count("crash_cases_fully_enumerated", 1)
	}
	res.MaxOf("crash_points_max_per_case", int64(count))
	res.Evals = 1 + enumerated
	res.Key = fmt.Sprintf("%s|%s|%s|%s%s", tmpl, d.Shape, strings.Join(calls, ","), formClass(sc.Op.Addr), sc.Op.Cred.class())
	res.NT = count >= 3 && enumerated == count
	if i == 3 || i == 11 {
		res.Sample = shorten(wit(map[string]any{"phase": "crash", "calls": calls, "crash_points": count}))
	}
	return
}

// continueAfterCrash runs a few more operations through a fresh store on a crashed
// directory and judges the file strictly after each of them.
func continueAfterCrash(path string, m *model, pool []string, rng *rand.Rand, res *worker.Result) (key, what string) {
	st, err := credentials.NewFileStore(path)
	if err != nil {
		return "crash:store-unopenable", "NewFileStore: " + err.Error()
	}
	m.saves = 0
	var ops []crashOp
	var keys []string
	for k := range m.auths() {
		keys = append(keys, k)
	}
	sort.Strings(keys)
	if len(keys) > 0 {
		ops = append(ops, crashOp{Kind: "delete", Addr: keys[rng.IntN(len(keys))]}) // a shorter document than any the crash left behind
	}
	a := pool[rng.IntN(len(pool))]
	ops = append(ops, crashOp{Kind: "put", Addr: a, Cred: cred{U: "u", P: "p"}}, crashOp{Kind: "delete", Addr: a})
	var done []string
	for _, op := range ops {
		done = append(done, op.Kind+" "+op.Addr)
		if err := applyOp(st, op); err != nil {
			return "crash:continuation-op-error", fmt.Sprintf("%v: %v", done, err)
		}
		applyModel(m, op)
		doc, raw, mode, present, err := readDoc(path)
		if err != nil {
			return "crash:continuation-file-invalid", fmt.Sprintf("after %v the config file (%d bytes) is not exactly one JSON document: %v; tail %q", done, len(raw), err, tailBytes(raw, 120))
		}
		if bad := cmpModel(m, doc, present, op.Addr); bad != "" {
			return "crash:continuation-file-wrong", fmt.Sprintf("after %v: %s", done, bad)
		}
		if present && m.saves > 0 && mode.Perm() != 0o600 {
			return "crash:continuation-mode", fmt.Sprintf("after %v the file mode is %o", done, mode.Perm())
		}
		res.Count("crash_continuation_ops", 1)
	}
	return "", ""
}

func tailBytes(b []byte, n int) []byte {
	if len(b) > n {
		return b[len(b)-n:]
	}
	return b
}

func applyModel(m *model, op crashOp) {
	if op.ExpectErr {
		return
	}
	if op.Kind == "put" {
		m.put(op.Addr, op.Cred)
	} else {
		m.del(op.Addr)
	}
}

func cmpModel(m *model, doc map[string]any, present bool, touched string) string {
	switch {
	case m.doc == nil && !present:
		return ""
	case m.doc == nil:
		_, what := diffDocs(map[string]any{}, doc, touched)
		return what
	case !present:
		return "the config file does not exist"
	}
	_, what := diffDocs(m.doc, doc, touched)
	return what
}

func readCrashLog(path string) (int, []string, error) {
	f, err := os.Open(path)
	if err != nil {
		return 0, nil, err
	}
	defer f.Close()
	var calls []string
	count := -1
	sc := bufio.NewScanner(f)
	for sc.Scan() {
		l := sc.Text()
		if strings.HasPrefix(l, "COUNT ") {
			count, err = strconv.Atoi(strings.TrimPrefix(l, "COUNT "))
			if err != nil {
				return 0, nil, err
			}
			continue
		}
		if _, name, ok := strings.Cut(l, " "); ok {
			calls = append(calls, name)
		}
	}
	if count < 0 || count != len(calls) {
		return 0, nil, fmt.Errorf("crashat log malformed: COUNT %d, %d calls listed", count, len(calls))
	}
	return count, calls, nil
}
