// C18 — The credentials file store round-trips secrets and never damages the config file.
//
// Three monitors over the real registry/remote/credentials code:
//
//	seq   random pre-existing docker config documents × random Put/Get/Delete/reopen
//	      histories; after every step the store's answers, the file on disk (semantic
//	      JSON, mode) and a freshly opened store are compared with a reference model.
//	crash one Put/Delete of a scripted case is run in a child process under the ptrace
//	      tool crashat and killed before its k-th file-system-mutating system call, for
//	      every k; the file must be the complete old or the complete new document.
//	conc  4–16 goroutines on one store; the recorded history plus the final file is
//	      checked for linearizability with porcupine (per address), a reader goroutine
//	      demands that the file is complete at every instant; also under -race.
package main

import (
	"bytes"
	"context"
	_ "crypto/sha256"
	_ "crypto/sha512"
	"encoding/json"
	"errors"
	"fmt"
	"math/rand/v2"
	"os"
	"os/signal"
	"path/filepath"
	"strconv"
	"strings"
	"sync"
	"syscall"
	"time"

	"oras.land/oras-go/v2/registry/remote/credentials"
	"oras.land/oras-go/v2/verifharness/evidence"
	"oras.land/oras-go/v2/verifharness/worker"
)

var ctx = context.Background()

func main() {
	if len(os.Args) > 1 && os.Args[1] == "--crashchild" {
		crashChild(os.Args[2:])
		return
	}
	if worker.IsWorker() {
		worker.Serve(runCase)
		return
	}
	r := evidence.New("C18", "fault_enumeration")
	r.Rule("seq: case = (generated docker config file: absent | absent directory | document with unknown top-level keys of every JSON type, credsStore/credHelpers, auths absent/null/with plain, unknown-field, legacy-field, legacy-URL-key and opaque entries; file mode; layout; config path a regular file or a symbolic link — relative in the same directory, absolute or relative into another directory, dangling) × history of 8–30 Put/Get/Delete/reopen steps over 5–9 address forms of 2–3 hosts with credentials having empty parts, colons, non-ASCII and JSON-hostile text, one step in eight a Put/Delete whose save is made to fail through the file system (config path is a directory | a parent component is a regular file | RLIMIT_FSIZE drawn around the document size so that write(2) to the temporary file is cut short or refused; an operation that returns an error must leave the file byte-for-byte and the store unchanged, one that returns nil must leave exactly the new document), one case in five with a failed update of a stored address followed by a successful Put of another, one Put in six storing again exactly what Get currently answers, one case in five starting with Put(host, X) where only a legacy URL key holds X, followed by Delete of that key; after every step Get of every address, the parsed file, its mode and a freshly opened store are compared with the reference model. " +
		"crash: case = scripted (14 templates: document, regular or symlinked config path, prefix operations, one Put/Delete); the operation is killed before each of its file-system-mutating system calls in turn (exhaustive per case) and the document read through the configured path compared with the complete old and new documents; then a fresh store continues in the crashed directory (stray temporary files stay) with Delete / Put / Delete, and after each the file must be exactly one JSON document (no trailing bytes) equal to the model. " +
		"conc: case = (document, 1–3 non-aliasing addresses, 4–16 goroutines × 2–6 operations with unique credentials); porcupine per address over the recorded history plus the final file; Gets also of a never-stored address and of a bare host known only under its legacy URL key; a reader polls the configured path (a third of the cases through a symbolic link); a monitor declares conc:deadlock when no call starts or returns between two samples and a stop-the-world goroutine dump shows every client parked on the config lock. " +
		"distinct = hash(phase, document shape, operation/address-form/credential-class sequence [, system-call sequence | observed interleaving]); " +
		"non-trivial = seq: pre-existing document with ≥1 unknown top-level key and ≥2 auths entries and ≥1 effective Put and Delete; crash: ≥3 crash points, all enumerated; conc: ≥2 operations on one address overlapped in time, one of them a Put/Delete")
	r.Assume("credentials and document strings are valid UTF-8 (JSON cannot carry other bytes)")
	r.Assume("pre-existing documents are well-formed docker configs: auths is an object (or null/absent), credsStore a string or null, credHelpers an object of strings")
	r.Assume("crash points are entries of file-system-mutating system calls as recognised by tools/crashat.c; a kill inside one write(2) is not explored (the data goes to a temporary file)")
	r.Assume("the file is always read through the configured path; whether a symbolic link at that path survives a save is recorded, not judged")
	r.Assume("a save is made to fail only through the file system (config path occupied by a directory, parent component a regular file, RLIMIT_FSIZE with SIGXFSZ ignored standing in for ENOSPC/EDQUOT/EFBIG), and only in steps where the answers of Get before and after the operation differ")
	r.Assume("Get of an address whose only matching entries are malformed (undecodable auth) is not judged")

	// every temporary directory of the workers lives under one scratch directory that the
	// supervisor removes, also when a worker dies in the middle of a case
	scratch, err := os.MkdirTemp("", "verif-c18-scratch-")
	if err != nil {
		fmt.Println("BROKEN: mkdtemp:", err)
		os.Exit(2)
	}
	tmpEnv := "TMPDIR=" + scratch
	byKey := func(res worker.Result) {
		for _, v := range res.Viol {
			r.Add("violations["+v.Key+"]", 1)
		}
	}
	t0 := time.Now()
	lap := func(name string) {
		r.Set("wall_s_"+name, float64(int(time.Since(t0).Seconds()*10))/10)
		t0 = time.Now()
	}
	worker.Run(r, worker.Opts{Phase: "seq", Total: r.N(600, 12000), Batch: 25, OnResult: byKey, Env: []string{tmpEnv}})
	lap("seq")

	if os.Getenv("VERIF_CRASHAT") == "" {
		r.Violation("harness:no-crashat", "VERIF_CRASHAT is not set", nil)
	} else {
		worker.Run(r, worker.Opts{Phase: "crash", Total: r.N(112, 3360), Batch: 5, OnResult: byKey, Env: []string{tmpEnv}})
		r.Set("crash_points_exhaustive_per_case", r.Counter("crash_cases_fully_enumerated") == r.Counter("crash_cases_with_points"))
	}
	lap("crash")

	worker.Run(r, worker.Opts{Phase: "conc", Total: r.N(240, 10000), Batch: 15, OnResult: byKey, Env: []string{tmpEnv}})
	lap("conc")
	if bin := os.Getenv("VERIF_RACE_BIN"); bin != "" {
		raceDir := filepath.Join(scratch, "racelogs")
		os.Mkdir(raceDir, 0o700)
		worker.Run(r, worker.Opts{Phase: "race", Total: r.N(60, 2500), Batch: 5, Bin: bin, OnResult: byKey,
			Env: []string{tmpEnv, "GORACE=halt_on_error=0 log_path=" + filepath.Join(raceDir, "race")}})
		n := countRaceReports(raceDir, r)
		r.Set("race_reports_in_library", n)
		os.RemoveAll(raceDir)
		lap("race")
	} else {
		r.Set("race_phase", "skipped: VERIF_RACE_BIN not set")
	}
	if r.Counter("crash_points_enumerated") < int64(r.N(200, 6000)) {
		r.Violation("harness:too-few-crash-points", fmt.Sprintf("only %d crash points enumerated", r.Counter("crash_points_enumerated")), nil)
	}
	os.RemoveAll(scratch)
	r.Finish(r.N(250, 5000))
}

// countRaceReports counts DATA RACE blocks with a library frame.
func countRaceReports(dir string, r *evidence.Run) int {
	files, _ := filepath.Glob(filepath.Join(dir, "race*"))
	n := 0
	seen := map[string]bool{}
	for _, f := range files {
		b, _ := os.ReadFile(f)
		for _, blk := range strings.Split(string(b), "==================") {
			if !strings.Contains(blk, "WARNING: DATA RACE") {
				continue
			}
			lib := false
			var sig []string
			for _, l := range strings.Split(blk, "\n") {
				l = strings.TrimSpace(l)
				if strings.Contains(l, "oras.land/oras-go/v2/") && !strings.Contains(l, "verifharness") {
					lib = true
				}
				if strings.HasPrefix(l, "oras.land/") {
					sig = append(sig, l)
				}
			}
			k := strings.Join(sig, "|")
			if seen[k] {
				continue
			}
			seen[k] = true
			if lib {
				n++
				r.Violation("race", "data race reported by the race detector in library code", blk)
			} else {
				r.Violation("harness:race", "data race inside the harness itself", blk)
			}
		}
	}
	return n
}

func runCase(phase string, i int) worker.Result {
	seed := evidence.New("C18", "fault_enumeration").Seed
	rng := evidence.RandFor(seed, "c18-"+phase, i)
	switch phase {
	case "seq":
		return runSeq(i, rng)
	case "crash":
		return runCrash(i, rng)
	default:
		return runConc(phase, i, rng)
	}
}

// ---- shared: address pools, store opening ----

func openStore(kind, path string) (credentials.Store, error) {
	if kind == "dyn" {
		return credentials.NewStore(path, credentials.StoreOptions{AllowPlaintextPut: true})
	}
	return credentials.NewFileStore(path)
}

// genPool picks hosts and the address forms used by a case.
func genPool(rng *rand.Rand) (hosts, pool, allForms []string) {
	nh := 2 + rng.IntN(2)
	perm := rng.Perm(len(hostPool))
	for _, p := range perm[:nh] {
		h := hostPool[p]
		hosts = append(hosts, h)
		f := forms(h)
		allForms = append(allForms, f...)
		pool = append(pool, h)
		extra := 1 + rng.IntN(2)
		for _, q := range rng.Perm(len(f) - 1)[:extra] {
			pool = append(pool, f[1+q])
		}
	}
	if rng.IntN(10) == 0 {
		pool = append(pool, "")
	}
	return
}

func formClass(addr string) string {
	switch {
	case addr == "":
		return "E"
	case strings.HasPrefix(addr, "https://") && strings.HasSuffix(addr, "/v1/"):
		return "V"
	case strings.HasPrefix(addr, "https://"), strings.HasPrefix(addr, "http://"):
		return "U"
	case strings.Contains(addr, "/"):
		return "P"
	}
	return "H"
}

// ---- sequential phase ----

type seqStep struct {
	Op   string `json:"op"`
	Addr string `json:"addr,omitempty"`
	Cred *cred  `json:"cred,omitempty"`
	Fail string `json:"save_made_to_fail_by,omitempty"`
}

var ignoreXFSZ sync.Once

// pickFailMode draws how the save of a step is made to fail.
func pickFailMode(rng *rand.Rand, path string) string {
	switch rng.IntN(3) {
	case 0:
		return "path-is-directory"
	case 1:
		return "parent-is-file"
	}
	// a write fault: limits drawn around the size of the document
	size := int64(0)
	if fi, err := os.Stat(path); err == nil {
		size = fi.Size()
	}
	opts := []int64{0, 1, 63, size / 2, size - 1, size - 40, size, size + 40, size + 4000, 4095, 4096}
	n := opts[rng.IntN(len(opts))]
	if n < 0 {
		n = 0
	}
	return fmt.Sprintf("write-limit=%d", n)
}

// breakSave changes the file system so that the next save of the config file
// must fail (also for root), and returns the function that puts everything back:
//
//	path-is-directory  the config path itself is a non-empty directory (rename fails)
//	parent-is-file     a component of the config directory's path is a regular file
//	write-limit=N      no file may grow beyond N bytes: the write to the temporary file is cut
//	                   short / refused (the save may also succeed when N is large enough)
func breakSave(mode, path string) (restore func() error, err error) {
	if strings.HasPrefix(mode, "write-limit=") {
		// RLIMIT_FSIZE for the duration of the step (SIGXFSZ ignored): write(2) beyond the
		// limit is cut short or fails with EFBIG, as on a full disk or an exhausted quota.
		// Only the library writes files in this process meanwhile.
		n, err := strconv.ParseUint(strings.TrimPrefix(mode, "write-limit="), 10, 63)
		if err != nil {
			return nil, err
		}
		ignoreXFSZ.Do(func() { signal.Ignore(syscall.SIGXFSZ) })
		var old syscall.Rlimit
		if err := syscall.Getrlimit(syscall.RLIMIT_FSIZE, &old); err != nil {
			return nil, err
		}
		lim := old
		lim.Cur = n
		if err := syscall.Setrlimit(syscall.RLIMIT_FSIZE, &lim); err != nil {
			return nil, err
		}
		return func() error { return syscall.Setrlimit(syscall.RLIMIT_FSIZE, &old) }, nil
	}
	if _, e := os.Lstat(filepath.Dir(path)); e != nil {
		mode = "parent-is-file" // the config directory does not exist yet
	}
	switch mode {
	case "path-is-directory":
		aside := path + ".aside"
		moved := false
		if _, e := os.Lstat(path); e == nil {
			if err := os.Rename(path, aside); err != nil {
				return nil, err
			}
			moved = true
		}
		if err := os.Mkdir(path, 0o700); err != nil {
			return nil, err
		}
		if err := os.WriteFile(filepath.Join(path, "occupied"), []byte("x"), 0o600); err != nil {
			return nil, err
		}
		return func() error {
			if err := os.RemoveAll(path); err != nil {
				return err
			}
			if moved {
				return os.Rename(aside, path)
			}
			return nil
		}, nil
	default: // parent-is-file
		p := filepath.Dir(path)
		for {
			if _, e := os.Lstat(filepath.Dir(p)); e == nil {
				break
			}
			p = filepath.Dir(p) // the topmost component that does not exist yet
		}
		aside := p + ".aside"
		moved := false
		if _, e := os.Lstat(p); e == nil {
			if err := os.Rename(p, aside); err != nil {
				return nil, err
			}
			moved = true
		}
		if err := os.WriteFile(p, []byte("not a directory"), 0o600); err != nil {
			return nil, err
		}
		return func() error {
			if err := os.Remove(p); err != nil {
				return err
			}
			if moved {
				return os.Rename(aside, p)
			}
			return nil
		}, nil
	}
}

func runSeq(i int, rng *rand.Rand) (res worker.Result) {
	hosts, pool, allForms := genPool(rng)
	_ = hosts
	// a fixed slice of the cases carries "credsStore": "" (violation key file:credsStore-empty-dropped)
	emptyCS := i%40 == 13
	d := genDoc(rng, docOpts{entryKeys: allForms, emptyCreds: emptyCS, mustExist: emptyCS, bigDocument: rng.IntN(40) == 0})
	if !d.AbsentDir && rng.IntN(4) == 0 {
		d.setLink(linkKinds[rng.IntN(len(linkKinds))])
	}
	// "login again" slice: a legacy URL key of a pool host holds credential X, the bare
	// host has no entry; the history starts with Put(host, X) — after which the file
	// must have an exact entry for the host — and goes on to Delete the legacy key
	var forced []seqStep
	if i%5 == 1 && !d.Absent {
		h := hosts[0]
		legacy := ""
		for _, a := range pool {
			if a != h && toHost(a) == h {
				legacy = a
				break
			}
		}
		if legacy != "" {
			a, ok := d.Doc["auths"].(map[string]any)
			if !ok {
				a = map[string]any{}
				d.Doc["auths"] = a
			}
			for k := range a {
				if toHost(k) == h {
					delete(a, k)
				}
			}
			x := genCred(rng)
			x.U = "again" + x.U
			e := entryFor(x)
			if rng.IntN(2) == 0 {
				e["email"] = "someone@example.com"
			}
			a[legacy] = e
			d.Entries = len(a)
			d.retext()
			d.Shape += "|relogin"
			forced = append(forced, seqStep{Op: "put", Addr: h, Cred: &x})
			switch rng.IntN(4) {
			case 0:
				forced = append(forced, seqStep{Op: "reopen"})
			case 1:
				forced = append(forced, seqStep{Op: "get", Addr: h})
			}
			forced = append(forced, seqStep{Op: "delete", Addr: legacy})
		}
	}
	// "failed update" slice: an address is stored, its update fails in the save, then
	// another address is stored successfully: the first entry must still be there
	if i%5 == 3 {
		a, b := pool[0], pool[len(pool)-1]
		x, y, z := genCred(rng), genCred(rng), genCred(rng)
		x.U, y.U = "first"+x.U, "second"+y.U
		fm := "pick" // drawn when the step runs (write limits depend on the document size then)
		forced = append(forced, seqStep{Op: "put", Addr: a, Cred: &x}, seqStep{Op: "put", Addr: a, Cred: &y, Fail: fm}, seqStep{Op: "put", Addr: b, Cred: &z})
	}
	kind := "file"
	if !d.HasHelpers && rng.IntN(4) == 0 {
		kind = "dyn"
	}
	// the config lives one level below the case directory, so that the directory
	// holding it can be swapped for a regular file
	top, err := os.MkdirTemp("", "verif-c18-")
	if err != nil {
		res.Violate("harness:mkdtemp", err.Error(), nil)
		return
	}
	defer os.RemoveAll(top)
	dir := filepath.Join(top, "home")
	if err := os.Mkdir(dir, 0o700); err != nil {
		res.Violate("harness:mkdir", err.Error(), nil)
		return
	}
	path, err := d.install(dir)
	if err != nil {
		res.Violate("harness:install", err.Error(), nil)
		return
	}
	m := d.newModel() // what the store answers
	var mf *model     // what the file holds, while that differs (after a failed save that was not rolled back)
	fileView := func() *model {
		if mf != nil {
			return mf
		}
		return m
	}
	var hist []seqStep
	wit := func() map[string]any {
		return map[string]any{"store": kind, "document": string(clip(d.Text, 4000)), "doc_state": d.Shape, "mode": fmt.Sprintf("%o", d.Mode), "config_path_is_symlink": d.Link, "pool": pool, "history": hist}
	}
	st, err := openStore(kind, path)
	if err != nil {
		res.Violate("open-error", fmt.Sprintf("opening a %s store on a well-formed document failed: %v", kind, err), wit())
		return
	}

	// checkState compares store answers, the file and a fresh store with the model.
	checkState := func(where, touched string) bool {
		for _, a := range pool {
			accept, judged, legacy := m.get(a)
			got, err := st.Get(ctx, a)
			if !judged {
				res.Count("gets_unjudged", 1)
				continue
			}
			if err != nil {
				res.Violate("get-error", fmt.Sprintf("%s: Get(%q) failed: %v", where, a, err), wit())
				return false
			}
			if !credIn(fromLib(got), accept) {
				k := "get-mismatch"
				if legacy {
					k = "get-legacy-mismatch"
				}
				res.Violate(k, fmt.Sprintf("%s: Get(%q) = %s, want one of %v", where, a, fromLib(got), accept), wit())
				return false
			}
			res.Count("gets_judged", 1)
			if legacy {
				res.Count("gets_via_legacy_key", 1)
			}
		}
		doc, _, mode, present, err := readDoc(path)
		if err != nil {
			res.Violate("file:unparseable", fmt.Sprintf("%s: config file does not parse: %v", where, err), wit())
			return false
		}
		m := fileView() // from here on: the file and a freshly opened store
		switch {
		case m.doc == nil:
			if present {
				if k, what := diffDocs(map[string]any{}, doc, touched); k != "" {
					res.Violate(k, where+": no credential was ever stored, but "+what, wit())
					return false
				}
			}
		case !present:
			res.Violate("file:missing", where+": the config file does not exist although the model document does", wit())
			return false
		default:
			if k, what := diffDocs(m.doc, doc, touched); k != "" {
				res.Violate(k, where+": "+what, wit())
				return false
			}
			perm := mode.Perm()
			if !mode.IsRegular() {
				res.Violate("file:not-regular", fmt.Sprintf("%s: config path is %v", where, mode), wit())
				return false
			}
			if m.saves > 0 && perm != 0o600 {
				res.Violate("file:mode", fmt.Sprintf("%s: file was rewritten but its mode is %o, not 0600", where, perm), wit())
				return false
			}
			if m.saves == 0 && perm != 0o600 && perm != m.origMode {
				res.Violate("file:mode", fmt.Sprintf("%s: mode is %o (was %o)", where, perm, m.origMode), wit())
				return false
			}
		}
		res.Count("file_comparisons", 1)
		// a freshly opened store agrees
		fresh, err := credentials.NewFileStore(path)
		if err != nil {
			res.Violate("fresh-store-open-error", fmt.Sprintf("%s: NewFileStore on the written file failed: %v", where, err), wit())
			return false
		}
		for _, a := range pool {
			accept, judged, _ := m.get(a)
			if !judged {
				continue
			}
			got, err := fresh.Get(ctx, a)
			if err != nil || !credIn(fromLib(got), accept) {
				res.Violate("fresh-store-disagrees", fmt.Sprintf("%s: a freshly opened store returns Get(%q) = %s, %v; want one of %v", where, a, fromLib(got), err, accept), wit())
				return false
			}
		}
		res.Count("steps_compared", 1)
		return true
	}

	if !checkState("initially", "") {
		return
	}
	steps := 8 + rng.IntN(23)
	var opsig strings.Builder
	effPut, effDel := 0, 0
	linkGone := false
	for s := 0; s < steps; s++ {
		addr := pool[rng.IntN(len(pool))]
		op := rng.IntN(20)
		var fc *cred
		isForced := false
		failMode := ""
		if len(forced) > 0 {
			isForced = true
			f := forced[0]
			forced = forced[1:]
			addr, fc, failMode = f.Addr, f.Cred, f.Fail
			if failMode == "pick" {
				failMode = pickFailMode(rng, path)
			}
			op = map[string]int{"put": 0, "delete": 9, "get": 15, "reopen": 18}[f.Op]
		} else if rng.IntN(8) == 0 {
			failMode = pickFailMode(rng, path)
		}
		// failingSave runs one Put/Delete that needs a save while the save cannot succeed:
		// it must return an error and change nothing. What Get answers afterwards decides
		// how the model goes on (rolled back / not rolled back / neither: stop).
		const (
			fsStop      = iota // violation reported, end the case
			fsFailed           // the operation failed and the model was brought in line
			fsSucceeded        // the operation returned nil (write limit large enough): judge it as a normal success
		)
		failingSave := func(what string, after *model, run func() error) int {
			before, _, _ := m.get(addr)
			want, _, _ := after.get(addr)
			_, rawBefore, _, presentBefore, _ := readDoc(path)
			restore, err := breakSave(failMode, path)
			if err != nil {
				res.Violate("harness:break-save", err.Error(), wit())
				return fsStop
			}
			opErr := run()
			if err := restore(); err != nil {
				res.Violate("harness:restore", err.Error(), wit())
				return fsStop
			}
			limited := strings.HasPrefix(failMode, "write-limit=")
			if limited {
				res.Count("write_limited_saves", 1)
			}
			if opErr == nil && limited {
				// the caller applies the operation to the model; the file must then be exactly
				// the new document
				res.Count("write_limited_saves_succeeded", 1)
				return fsSucceeded
			}
			res.Count("failing_saves", 1)
			shape := failMode
			if limited {
				shape = "write-limit"
			}
			res.Observe("failing_save_shapes", what[:3]+"/"+shape)
			if opErr == nil {
				res.Violate("failed-save:error-swallowed", fmt.Sprintf("%s returned nil although the config file could not be written (%s)", what, failMode), wit())
				return fsStop
			}
			// a refused operation leaves the old file as it is, byte for byte
			if _, rawAfter, _, presentAfter, _ := readDoc(path); presentAfter != presentBefore || !bytes.Equal(rawBefore, rawAfter) {
				res.Violate("failed-save:file-changed", fmt.Sprintf("%s failed (%v) under %s, but the config file changed: %d bytes before, %d bytes after", string(clip([]byte(what), 200)), opErr, failMode, len(rawBefore), len(rawAfter)), wit())
				return fsStop
			}
			got, gerr := st.Get(ctx, addr)
			g := fromLib(got)
			switch {
			case gerr != nil:
				res.Violate("get-error", fmt.Sprintf("Get(%q) after the failed %s: %v", addr, what, gerr), wit())
				return fsStop
			case credIn(g, before):
				res.Count("failing_saves_rolled_back", 1)
			case credIn(g, want):
				res.Count("failing_saves_not_rolled_back", 1)
				{
					res.Violate("failed-save:not-rolled-back", fmt.Sprintf("%s failed (%v), yet Get(%q) now answers %s instead of %s: the failed operation stays in the store and the next successful save writes it to the file", string(clip([]byte(what), 200)), opErr, addr, clip([]byte(g.String()), 200), clip([]byte(fmt.Sprint(before)), 200)), wit())
				}
				if mf == nil {
					mf = m
				}
				after.saves = mf.saves
				m = after
			default:
				res.Violate("failed-save:entry-neither-old-nor-new", fmt.Sprintf("%s failed (%v); Get(%q) now answers %s, which is neither the previous answer %v nor the refused one %v", what, opErr, addr, g, before, want), wit())
				return fsStop
			}
			return fsFailed
		}
		// a failing step is only run where the answers before and after the operation are
		// both predictable and have nothing in common, so that Get tells which one holds
		canFail := func(after *model) bool {
			before, j1, _ := m.get(addr)
			want, j2, _ := after.get(addr)
			if !j1 || !j2 {
				return false
			}
			for _, c := range want {
				if credIn(c, before) {
					return false
				}
			}
			return true
		}
		switch {
		case op < 9: // Put
			c := genCred(rng)
			colon := fc == nil && rng.IntN(15) == 0
			if colon {
				c.U = "us:er" + fmt.Sprint(rng.IntN(10))
			}
			if fc != nil {
				c = *fc
			} else if acc, judged, _ := m.get(addr); !colon && judged && rng.IntN(6) == 0 && (acc[0] != cred{}) && !strings.Contains(acc[0].U, ":") {
				c = acc[0] // storing again exactly what Get answers now (exact entry or legacy key)
				res.Count("puts_identical_to_current_answer", 1)
			}
			var after *model
			if failMode != "" && !colon {
				after = m.clone()
				after.put(addr, c)
			}
			if after != nil && canFail(after) {
				hist = append(hist, seqStep{Op: "put", Addr: addr, Cred: &c, Fail: failMode})
				opsig.WriteString("F" + formClass(addr))
				switch failingSave(fmt.Sprintf("Put(%q, %s)", addr, c), after, func() error { return st.Put(ctx, addr, c.lib()) }) {
				case fsStop:
					return
				case fsSucceeded:
					m.put(addr, c)
					mf = nil
					effPut++
					res.Count("puts", 1)
				}
				break
			}
			hist = append(hist, seqStep{Op: "put", Addr: addr, Cred: &c})
			err := st.Put(ctx, addr, c.lib())
			if colon {
				opsig.WriteString("c" + formClass(addr))
				if !errors.Is(err, credentials.ErrBadCredentialFormat) {
					res.Violate("colon-username-accepted", fmt.Sprintf("Put(%q) with username %q returned %v, want ErrBadCredentialFormat", addr, c.U, err), wit())
					return
				}
				res.Count("colon_refusals", 1)
			} else {
				opsig.WriteString("p" + formClass(addr) + c.class())
				if err != nil {
					res.Violate("put-error", fmt.Sprintf("Put(%q, %s) failed: %v", addr, c, err), wit())
					return
				}
				m.put(addr, c)
				mf = nil // a successful save writes the store's whole view
				effPut++
				res.Count("puts", 1)
				res.Observe("credential_classes", c.class())
			}
		case op < 15: // Delete, preferring existing entries
			if !isForced && rng.IntN(3) > 0 {
				var have []string
				for _, a := range pool {
					if _, ok := m.auths()[a]; ok {
						have = append(have, a)
					}
				}
				if len(have) > 0 {
					addr = have[rng.IntN(len(have))]
				}
			}
			var after *model
			if _, exact := m.auths()[addr]; exact && failMode != "" {
				after = m.clone()
				after.del(addr)
			}
			if after != nil && canFail(after) {
				hist = append(hist, seqStep{Op: "delete", Addr: addr, Fail: failMode})
				opsig.WriteString("G" + formClass(addr))
				switch failingSave(fmt.Sprintf("Delete(%q)", addr), after, func() error { return st.Delete(ctx, addr) }) {
				case fsStop:
					return
				case fsSucceeded:
					m.del(addr)
					mf = nil
					effDel++
					res.Count("deletes_effective", 1)
				}
				break
			}
			hist = append(hist, seqStep{Op: "delete", Addr: addr})
			if err := st.Delete(ctx, addr); err != nil {
				res.Violate("delete-error", fmt.Sprintf("Delete(%q) failed: %v", addr, err), wit())
				return
			}
			if m.del(addr) {
				mf = nil
				effDel++
				res.Count("deletes_effective", 1)
				opsig.WriteString("d" + formClass(addr))
			} else {
				res.Count("deletes_noop", 1)
				opsig.WriteString("n" + formClass(addr))
			}
		case op < 18: // Get (every address is read after each step anyway)
			hist = append(hist, seqStep{Op: "get", Addr: addr})
			opsig.WriteString("g" + formClass(addr))
		default: // reopen: a new process would start from the file
			hist = append(hist, seqStep{Op: "reopen"})
			opsig.WriteString("r")
			st, err = openStore(kind, path)
			if err != nil {
				res.Violate("open-error", fmt.Sprintf("reopening the %s store failed: %v", kind, err), wit())
				return
			}
			if mf != nil {
				m, mf = mf, nil // a new store knows only what the file holds
			}
			res.Count("reopens", 1)
		}
		if !checkState(fmt.Sprintf("after step %d (%s %q)", s, hist[len(hist)-1].Op, hist[len(hist)-1].Addr), hist[len(hist)-1].Addr) {
			return
		}
		// whether the link itself survives a save is not in the statement: recorded only
		if d.Link != "" && !linkGone && !isLink(path) {
			linkGone = true
			res.Count("symlink_replaced_by_regular_file_on_save", 1)
		}
	}
	if d.Link != "" {
		res.Count("seq_cases_with_symlinked_config_path", 1)
		if !linkGone && fileView().saves > 0 {
			res.Count("symlink_survived_saves", 1)
		}
	}
	if ents, _ := filepath.Glob(filepath.Join(filepath.Dir(path), "oras_credstore_temp_*")); len(ents) > 0 {
		res.Count("temp_files_left_by_completed_ops", int64(len(ents)))
	}
	res.Count("documents", 1)
	res.Observe("document_shapes", d.Shape)
	res.Key = fmt.Sprintf("%s|%s|%s", kind, d.Shape, opsig.String())
	res.NT = !d.Absent && d.UnknownTop >= 1 && d.Entries >= 2 && effPut >= 1 && effDel >= 1
	if i < 2 {
		res.Sample = shorten(wit())
	}
	return
}

func clip(b []byte, n int) []byte {
	if len(b) > n {
		return append(append([]byte{}, b[:n]...), "…"...)
	}
	return b
}

// shorten round-trips v through JSON and truncates long strings (for samples).
func shorten(v any) any {
	b, err := json.Marshal(v)
	if err != nil {
		return fmt.Sprint(v)
	}
	var x any
	if err := json.Unmarshal(b, &x); err != nil {
		return string(clip(b, 2000))
	}
	var walk func(v any) any
	walk = func(v any) any {
		switch t := v.(type) {
		case string:
			if r := []rune(t); len(r) > 160 {
				return string(r[:160]) + fmt.Sprintf("…(%d chars)", len(r))
			}
		case []any:
			for i := range t {
				t[i] = walk(t[i])
			}
		case map[string]any:
			for k := range t {
				t[k] = walk(t[k])
			}
		}
		return v
	}
	return walk(x)
}
