package main

// Reference model of the docker config document and generators for documents,
// addresses and credentials. The model encodes only what the C18 statement
// says: an entry per exact server address, Get falling back to legacy URL
// keys, everything else in the document left alone.

import (
	"bytes"
	"encoding/base64"
	"encoding/json"
	"fmt"
	"io"
	"math/big"
	"math/rand/v2"
	"os"
	"sort"
	"strings"

	"oras.land/oras-go/v2/registry/remote/auth"
)

// cred is a credential in the harness's own representation.
type cred struct {
	U string `json:"u"`
	P string `json:"p"`
	R string `json:"r"`
	A string `json:"a"`
}

func (c cred) lib() auth.Credential {
	return auth.Credential{Username: c.U, Password: c.P, RefreshToken: c.R, AccessToken: c.A}
}

func fromLib(c auth.Credential) cred {
	return cred{U: c.Username, P: c.Password, R: c.RefreshToken, A: c.AccessToken}
}

func (c cred) String() string {
	b, _ := json.Marshal(c)
	return string(b)
}

// class describes the credential's shape for structural keys.
func (c cred) class() string {
	cl := func(s string) string {
		switch {
		case s == "":
			return "e"
		case strings.Contains(s, ":"):
			return "c"
		case !isASCII(s):
			return "u"
		case len(s) > 200:
			return "L"
		case strings.ContainsAny(s, "\"\\<>&\n\x00"):
			return "h"
		}
		return "a"
	}
	return cl(c.U) + cl(c.P) + cl(c.R) + cl(c.A)
}

func isASCII(s string) bool {
	for i := 0; i < len(s); i++ {
		if s[i] >= 0x80 {
			return false
		}
	}
	return true
}

// entryFor is the auths entry the statement implies for a stored credential:
// base64(username:password) plus the two tokens, empty parts omitted.
func entryFor(c cred) map[string]any {
	e := map[string]any{}
	if c.U != "" || c.P != "" {
		e["auth"] = base64.StdEncoding.EncodeToString([]byte(c.U + ":" + c.P))
	}
	if c.R != "" {
		e["identitytoken"] = c.R
	}
	if c.A != "" {
		e["registrytoken"] = c.A
	}
	return e
}

// credOf reads an auths entry as docker does (auth overrides the legacy
// username/password fields). ok=false: the entry is not one whose reading the
// harness can predict (opaque / malformed) and Gets of it are not judged.
func credOf(entry any) (cred, bool) {
	m, ok := entry.(map[string]any)
	if !ok {
		return cred{}, false
	}
	str := func(k string) (string, bool) {
		v, present := m[k]
		if !present {
			return "", true
		}
		s, ok := v.(string)
		return s, ok
	}
	var c cred
	var okU, okP, okR, okA, okAuth bool
	var a string
	c.U, okU = str("username")
	c.P, okP = str("password")
	c.R, okR = str("identitytoken")
	c.A, okA = str("registrytoken")
	a, okAuth = str("auth")
	if !(okU && okP && okR && okA && okAuth) {
		return cred{}, false
	}
	if a != "" {
		dec, err := base64.StdEncoding.DecodeString(a)
		if err != nil {
			return cred{}, false
		}
		u, p, found := strings.Cut(string(dec), ":")
		if !found {
			return cred{}, false
		}
		c.U, c.P = u, p
	}
	return c, true
}

// toHost normalises a (legacy) key to its host: scheme and path removed.
func toHost(k string) string {
	k = strings.TrimPrefix(k, "http://")
	k = strings.TrimPrefix(k, "https://")
	k, _, _ = strings.Cut(k, "/")
	return k
}

// model is the expected state of the config document.
type model struct {
	doc      map[string]any // nil: no file and nothing stored yet
	origMode os.FileMode    // mode of the pre-existing file (0 if absent)
	saves    int            // operations that had to rewrite the file
}

func (m *model) clone() *model {
	c := &model{origMode: m.origMode, saves: m.saves}
	if m.doc != nil {
		c.doc = deepCopy(m.doc).(map[string]any)
	}
	return c
}

func (m *model) auths() map[string]any {
	if m.doc == nil {
		return nil
	}
	a, _ := m.doc["auths"].(map[string]any)
	return a
}

func (m *model) ensureAuths() map[string]any {
	if m.doc == nil {
		m.doc = map[string]any{}
	}
	a, ok := m.doc["auths"].(map[string]any)
	if !ok {
		a = map[string]any{}
		m.doc["auths"] = a
	}
	return a
}

func (m *model) put(addr string, c cred) {
	m.ensureAuths()[addr] = entryFor(c)
	m.saves++
}

// del reports whether an exact entry existed (otherwise a no-op).
func (m *model) del(addr string) bool {
	a := m.auths()
	if _, ok := a[addr]; !ok {
		return false
	}
	delete(a, addr)
	m.saves++
	return true
}

// get returns the credentials a Get may return. judged=false when an opaque
// entry is involved. legacy=true when the answer comes from a legacy key.
func (m *model) get(addr string) (accept []cred, judged, legacy bool) {
	a := m.auths()
	if e, ok := a[addr]; ok {
		c, ok := credOf(e)
		if !ok {
			return nil, false, false
		}
		return []cred{c}, true, false
	}
	var keys []string
	for k := range a {
		if toHost(k) == addr {
			keys = append(keys, k)
		}
	}
	if len(keys) == 0 {
		return []cred{{}}, true, false
	}
	sort.Strings(keys)
	for _, k := range keys {
		c, ok := credOf(a[k])
		if !ok {
			return nil, false, true
		}
		accept = append(accept, c)
	}
	return accept, true, true
}

func credIn(c cred, set []cred) bool {
	for _, s := range set {
		if s == c {
			return true
		}
	}
	return false
}

// ---- JSON reading and semantic comparison ----

// parseDoc decodes exactly one JSON object (numbers kept as text).
func parseDoc(b []byte) (map[string]any, error) {
	dec := json.NewDecoder(bytes.NewReader(b))
	dec.UseNumber()
	var v any
	if err := dec.Decode(&v); err != nil {
		return nil, err
	}
	if _, err := dec.Token(); err != io.EOF {
		return nil, fmt.Errorf("trailing data after the JSON document")
	}
	m, ok := v.(map[string]any)
	if !ok {
		return nil, fmt.Errorf("document is not a JSON object")
	}
	return m, nil
}

// readDoc reads the config file through the configured path (a symbolic link is
// followed, as the library and every other reader of the path do).
// present=false when nothing can be reached through the path.
func readDoc(path string) (doc map[string]any, raw []byte, mode os.FileMode, present bool, err error) {
	fi, err := os.Stat(path)
	if err != nil {
		if os.IsNotExist(err) {
			return nil, nil, 0, false, nil
		}
		return nil, nil, 0, false, err
	}
	raw, err = os.ReadFile(path)
	if err != nil {
		return nil, nil, fi.Mode(), true, err
	}
	doc, err = parseDoc(raw)
	return doc, raw, fi.Mode(), true, err
}

func numEqual(a, b json.Number) bool {
	if a == b {
		return true
	}
	ra, ok1 := new(big.Rat).SetString(string(a))
	rb, ok2 := new(big.Rat).SetString(string(b))
	return ok1 && ok2 && ra.Cmp(rb) == 0
}

func jsonEqual(a, b any) bool {
	switch x := a.(type) {
	case nil:
		return b == nil
	case bool:
		y, ok := b.(bool)
		return ok && x == y
	case string:
		y, ok := b.(string)
		return ok && x == y
	case json.Number:
		y, ok := b.(json.Number)
		return ok && numEqual(x, y)
	case []any:
		y, ok := b.([]any)
		if !ok || len(x) != len(y) {
			return false
		}
		for i := range x {
			if !jsonEqual(x[i], y[i]) {
				return false
			}
		}
		return true
	case map[string]any:
		y, ok := b.(map[string]any)
		if !ok || len(x) != len(y) {
			return false
		}
		for k, v := range x {
			w, ok := y[k]
			if !ok || !jsonEqual(v, w) {
				return false
			}
		}
		return true
	}
	return false
}

// normalise makes an absent or null "auths" an empty object (the statement does
// not distinguish them) and returns (top-level without auths, auths).
func normalise(doc map[string]any) (map[string]any, map[string]any) {
	top := map[string]any{}
	auths := map[string]any{}
	for k, v := range doc {
		if k == "auths" {
			if a, ok := v.(map[string]any); ok {
				auths = a
			} else if v != nil {
				top[k] = v // malformed auths stays visible as a difference
			}
			continue
		}
		top[k] = v
	}
	return top, auths
}

// diffDocs compares the file's document with the expected one; key=="" when
// they are semantically equal. touched is the address of the entry the last
// operation was allowed to change.
func diffDocs(want, got map[string]any, touched string) (key, what string) {
	wt, wa := normalise(want)
	gt, ga := normalise(got)
	var names []string
	for k := range wt {
		names = append(names, k)
	}
	for k := range gt {
		if _, ok := wt[k]; !ok {
			names = append(names, k)
		}
	}
	sort.Strings(names)
	for _, k := range names {
		w, okw := wt[k]
		g, okg := gt[k]
		switch {
		case okw && !okg:
			if s, isStr := w.(string); k == "credsStore" && (w == nil || (isStr && s == "")) {
				return "file:credsStore-empty-dropped", fmt.Sprintf("top-level key \"credsStore\": %s was removed from the file", short(w))
			}
			return "file:top-level-key-lost", fmt.Sprintf("top-level key %q is gone from the file", k)
		case !okw && okg:
			return "file:top-level-key-added", fmt.Sprintf("top-level key %q appeared in the file", k)
		case !jsonEqual(w, g):
			return "file:top-level-key-changed", fmt.Sprintf("top-level key %q changed: want %s, file has %s", k, short(w), short(g))
		}
	}
	names = names[:0]
	for k := range wa {
		names = append(names, k)
	}
	for k := range ga {
		if _, ok := wa[k]; !ok {
			names = append(names, k)
		}
	}
	sort.Strings(names)
	for _, k := range names {
		w, okw := wa[k]
		g, okg := ga[k]
		who := "other-entry"
		if k == touched {
			who = "own-entry"
		}
		switch {
		case okw && !okg:
			return "file:" + who + "-lost", fmt.Sprintf("auths entry %q is gone from the file", k)
		case !okw && okg:
			return "file:" + who + "-added", fmt.Sprintf("auths entry %q appeared in the file: %s", k, short(g))
		case !jsonEqual(w, g):
			return "file:" + who + "-changed", fmt.Sprintf("auths entry %q: want %s, file has %s", k, short(w), short(g))
		}
	}
	return "", ""
}

func short(v any) string {
	b, _ := json.Marshal(v)
	if len(b) > 300 {
		return string(b[:300]) + "…"
	}
	return string(b)
}

func deepCopy(v any) any {
	switch x := v.(type) {
	case map[string]any:
		m := make(map[string]any, len(x))
		for k, w := range x {
			m[k] = deepCopy(w)
		}
		return m
	case []any:
		s := make([]any, len(x))
		for i, w := range x {
			s[i] = deepCopy(w)
		}
		return s
	}
	return v
}

// ---- generators ----

var hostPool = []string{"registry.example.com", "localhost:5000", "ghcr.io", "index.docker.io", "реестр.example", "10.0.0.1:443", "a.b", "quay.io"}
var unrelatedHosts = []string{"other.example.org", "https://legacy.example.org/v1/", "mirror.local:8443", "docker.io", "http://insecure.example"}

func forms(h string) []string {
	return []string{h, "https://" + h, "http://" + h, "https://" + h + "/v1/", "https://" + h + "/", h + "/v2/"}
}

var stringPool = []string{"", "plain", "ключ", "日本語テキスト", "emoji 😀🎉", "quote\"back\\slash", "<script>&amp;</script>", "line\nbreak\ttab\r",
	"sep\u2028para\u2029", "\x00\x01\x7f", "a:b", "  spaces  ", "é", "null", "{\"not\":\"parsed\"}", "%s%d\\u0041"}

func genString(rng *rand.Rand) string {
	if rng.IntN(12) == 0 {
		return strings.Repeat(stringPool[1+rng.IntN(len(stringPool)-1)], 50+rng.IntN(400))
	}
	s := stringPool[rng.IntN(len(stringPool))]
	if rng.IntN(3) == 0 {
		s += fmt.Sprint(rng.IntN(1000))
	}
	return s
}

var numberPool = []string{"0", "-0", "1", "-17", "3.14", "1.0", "1e400", "12345678901234567890123", "-2.5E-7", "0.1000", "9007199254740993", "1E+2"}

func genValue(rng *rand.Rand, depth int) any {
	n := 8
	if depth >= 3 {
		n = 6
	}
	switch rng.IntN(n) {
	case 0:
		return nil
	case 1:
		return rng.IntN(2) == 0
	case 2, 3:
		return json.Number(numberPool[rng.IntN(len(numberPool))])
	case 4, 5:
		return genString(rng)
	case 6:
		k := rng.IntN(4)
		arr := make([]any, k)
		for i := range arr {
			arr[i] = genValue(rng, depth+1)
		}
		return arr
	default:
		k := rng.IntN(4)
		obj := map[string]any{}
		for i := 0; i < k; i++ {
			obj[genKeyName(rng)] = genValue(rng, depth+1)
		}
		return obj
	}
}

var unknownKeys = []string{"HttpHeaders", "psFormat", "detachKeys", "experimental", "proxies", "x-unknown", "плагины", "currentContext", "aliases",
	"stackOrchestrator", "a<b>&c", "", "Auths", "auth"}

func genKeyName(rng *rand.Rand) string {
	return unknownKeys[rng.IntN(len(unknownKeys))]
}

func genCred(rng *rand.Rand) cred {
	var c cred
	switch rng.IntN(8) {
	case 0:
	case 1:
		c.U = "ユーザー" + fmt.Sprint(rng.IntN(100))
	case 2:
		c.U = "user \"q\" \\ <&>\n" + fmt.Sprint(rng.IntN(100))
	default:
		c.U = "user" + fmt.Sprint(rng.IntN(1000))
	}
	switch rng.IntN(10) {
	case 0:
	case 1:
		c.P = ":"
	case 2:
		c.P = "p:a:s:s" + fmt.Sprint(rng.IntN(100))
	case 3:
		c.P = ":lead" + fmt.Sprint(rng.IntN(100)) + "trail:"
	case 4:
		c.P = "пароль密码🔑" + fmt.Sprint(rng.IntN(100))
	case 5:
		c.P = genString(rng)
	case 6:
		c.P = strings.Repeat("x:y", 300+rng.IntN(1000))
	default:
		c.P = "secret" + fmt.Sprint(rng.IntN(100000))
	}
	tok := func() string {
		switch rng.IntN(6) {
		case 0, 1, 2:
			return ""
		case 3:
			return "eyJhbGciOiJIUzI1NiJ9." + fmt.Sprint(rng.IntN(1e9)) + ".sig-_"
		case 4:
			return genString(rng)
		}
		return "токен:" + fmt.Sprint(rng.IntN(1000))
	}
	c.R, c.A = tok(), tok()
	return c
}

// genEntry makes a pre-existing auths entry: well-formed ones (whose reading is
// predictable), with unknown fields, legacy fields, or opaque garbage.
func genEntry(rng *rand.Rand) (e any, unknownFields int, kind string) {
	c := genCred(rng)
	switch rng.IntN(10) {
	case 0: // legacy username/password fields only
		m := map[string]any{}
		if c.U != "" {
			m["username"] = c.U
		}
		if c.P != "" {
			m["password"] = c.P
		}
		if c.R != "" {
			m["identitytoken"] = c.R
		}
		return m, 0, "legacyfields"
	case 1: // opaque: malformed auth
		return map[string]any{"auth": "!!!not-base64!!!", "email": "x@example.com"}, 1, "opaque"
	case 2: // opaque: auth without colon
		return map[string]any{"auth": base64.StdEncoding.EncodeToString([]byte("nocolon"))}, 0, "opaque"
	case 3: // empty entry
		return map[string]any{}, 0, "empty"
	case 4, 5, 6: // with unknown fields
		m := entryFor(c)
		m["email"] = "someone@example.com"
		n := 1
		if rng.IntN(2) == 0 {
			m["x-extra"] = genValue(rng, 1)
			n++
		}
		if rng.IntN(3) == 0 {
			m["serveraddress"] = "ignored.example"
			n++
		}
		return m, n, "unknownfields"
	}
	return entryFor(c), 0, "plain"
}

// caseDoc is a generated pre-existing config file.
type caseDoc struct {
	Absent      bool
	AbsentDir   bool
	Mode        os.FileMode
	Text        []byte
	Doc         map[string]any
	UnknownTop  int
	Entries     int
	UnknownInEn int
	HasHelpers  bool // credsStore / credHelpers present
	Shape       string
	// Link: the config path is a symbolic link: "" (regular file), "same" (relative
	// link to a file of the same directory), "abs" (absolute link into another
	// directory), "rel" (relative link into another directory)
	Link string
}

var linkKinds = []string{"same", "abs", "rel"}

// setLink makes the config path of the case a symbolic link.
func (d *caseDoc) setLink(kind string) {
	d.Link = kind
	d.AbsentDir = false
	d.Shape += "|link-" + kind
}

// isLink reports whether the config path itself is (still) a symbolic link.
func isLink(path string) bool {
	fi, err := os.Lstat(path)
	return err == nil && fi.Mode()&os.ModeSymlink != 0
}

// retext re-serialises Doc after the case generator edited it.
func (d *caseDoc) retext() {
	b, err := json.Marshal(d.Doc)
	if err != nil {
		panic("harness: cannot encode edited document: " + err.Error())
	}
	d.Text = b
	if d.Doc, err = parseDoc(b); err != nil {
		panic("harness: edited document does not parse: " + err.Error())
	}
}

type docOpts struct {
	mustExist   bool
	noHelpers   bool
	minEntries  int
	minUnknown  int
	avoidHosts  map[string]bool // hosts that must not appear as (alias of) keys
	entryKeys   []string        // candidate keys (pool addresses and their other forms)
	emptyCreds  bool            // force "credsStore": ""
	bigDocument bool
}

func genDoc(rng *rand.Rand, o docOpts) caseDoc {
	var d caseDoc
	if !o.mustExist {
		switch rng.IntN(20) {
		case 0, 1, 2:
			d.Absent = true
			d.Shape = "absent"
			return d
		case 3:
			d.Absent, d.AbsentDir = true, true
			d.Shape = "absentdir"
			return d
		}
	}
	d.Mode = []os.FileMode{0o600, 0o644, 0o640, 0o666}[rng.IntN(4)]
	doc := map[string]any{}
	nu := rng.IntN(5)
	if nu < o.minUnknown {
		nu = o.minUnknown
	}
	var shape []string
	for len(doc) < nu {
		k := unknownKeys[rng.IntN(len(unknownKeys))] // includes "Auths" and "auth": distinct keys for a case-sensitive reader
		if _, dup := doc[k]; dup {
			continue
		}
		v := genValue(rng, 0)
		doc[k] = v
		shape = append(shape, fmt.Sprintf("%T", v))
	}
	if o.bigDocument {
		big := make([]any, 2000)
		for i := range big {
			big[i] = genString(rng)
		}
		doc["x-big"] = big
		nu++
	}
	d.UnknownTop = nu
	if o.emptyCreds {
		// "credsStore": "" — docker treats it as absent; the library drops the key on save
		doc["credsStore"] = ""
		if rng.IntN(4) == 0 {
			doc["credsStore"] = nil
		}
		d.HasHelpers = true
		shape = append(shape, "emptyCredsStore")
	} else if !o.noHelpers {
		switch rng.IntN(8) {
		case 0:
			doc["credsStore"] = "desktop"
			d.HasHelpers = true
		case 1:
			doc["credHelpers"] = map[string]any{"gcr.io": "gcloud", "aws.example": "ecr-login"}
			d.HasHelpers = true
		case 2:
			doc["credsStore"] = "osxkeychain"
			doc["credHelpers"] = map[string]any{}
			d.HasHelpers = true
		}
	}
	authsMode := rng.IntN(20)
	switch {
	case authsMode == 0 && o.minEntries == 0:
		shape = append(shape, "noauths")
	case authsMode == 1 && o.minEntries == 0:
		doc["auths"] = nil
		shape = append(shape, "nullauths")
	default:
		a := map[string]any{}
		ne := rng.IntN(5)
		if ne < o.minEntries {
			ne = o.minEntries
		}
		var kinds []string
		for tries := 0; len(a) < ne && tries < 50; tries++ {
			var k string
			if len(o.entryKeys) > 0 && rng.IntN(3) > 0 {
				k = o.entryKeys[rng.IntN(len(o.entryKeys))]
			} else {
				k = unrelatedHosts[rng.IntN(len(unrelatedHosts))]
			}
			if o.avoidHosts[toHost(k)] {
				continue
			}
			if _, dup := a[k]; dup {
				continue
			}
			e, uf, kind := genEntry(rng)
			a[k] = e
			d.UnknownInEn += uf
			kinds = append(kinds, kind)
		}
		doc["auths"] = a
		d.Entries = len(a)
		sort.Strings(kinds)
		shape = append(shape, kinds...)
	}
	// serialise with a random layout
	var buf bytes.Buffer
	enc := json.NewEncoder(&buf)
	enc.SetEscapeHTML(rng.IntN(2) == 0)
	if err := enc.Encode(doc); err != nil {
		panic("harness: cannot encode generated document: " + err.Error())
	}
	text := bytes.TrimSpace(buf.Bytes())
	switch rng.IntN(4) {
	case 0:
		var out bytes.Buffer
		json.Indent(&out, text, "", "\t")
		text = out.Bytes()
	case 1:
		var out bytes.Buffer
		json.Indent(&out, text, "", "  ")
		text = out.Bytes()
	case 2:
		text = append([]byte("\n  "), text...)
	}
	if rng.IntN(2) == 0 {
		text = append(append([]byte{}, text...), '\n')
	}
	d.Text = append([]byte{}, text...)
	parsed, err := parseDoc(d.Text)
	if err != nil {
		panic("harness: generated document does not parse: " + err.Error())
	}
	d.Doc = parsed
	sort.Strings(shape)
	d.Shape = fmt.Sprintf("m%o|u%d|%s", d.Mode, nu, strings.Join(shape, ","))
	return d
}

// install writes the pre-existing file (if any) and returns the config path.
func (d *caseDoc) install(dir string) (string, error) {
	path := dir + "/config.json"
	if d.AbsentDir {
		return dir + "/sub/dir/config.json", nil
	}
	file := path
	if d.Link != "" {
		target := "real.json"
		file = dir + "/real.json"
		if d.Link != "same" {
			if err := os.Mkdir(dir+"/elsewhere", 0o700); err != nil {
				return path, err
			}
			file = dir + "/elsewhere/real.json"
			target = "elsewhere/real.json"
			if d.Link == "abs" {
				target = file
			}
		}
		if err := os.Symlink(target, path); err != nil {
			return path, err
		}
	}
	if d.Absent {
		return path, nil // with a link: a dangling one
	}
	if err := os.WriteFile(file, d.Text, 0o600); err != nil {
		return path, err
	}
	return path, os.Chmod(file, d.Mode)
}

func (d *caseDoc) newModel() *model {
	m := &model{}
	if !d.Absent {
		m.doc = deepCopy(d.Doc).(map[string]any)
		m.origMode = d.Mode
	}
	return m
}
