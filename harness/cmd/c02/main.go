// C02 — Destination stays link-closed at every instant; failures surface, retry works.
//
// Phase "single" (fault enumeration): for every generated small case a
// fault-free run records which fault points (operation, node, ordinal) the
// real copy call reaches; then every reached point is faulted once with an
// injected error and once with a context cancellation, each on freshly built
// stores. Phase "multi": 1–3 simultaneous faults on larger graphs, including
// ExtendedCopyGraph. Monitors: link-closure check at the completion of every
// destination push (on the underlying store), global closure at quiescence,
// error surfacing, logical hang detection (progress counter + gauges +
// goroutine-dump classification), goroutine leak check, and a fault-free
// re-run on the same destination that must complete the graph.
package main

import (
	"context"
	_ "crypto/sha256"
	_ "crypto/sha512"
	"errors"
	"fmt"
	"os"
	"path/filepath"
	"sort"
	"strings"
	"time"

	"oras.land/oras-go/v2/verifharness/copymon"
	"oras.land/oras-go/v2/verifharness/evidence"
	"oras.land/oras-go/v2/verifharness/mon"
	"oras.land/oras-go/v2/verifharness/worker"
)

func main() {
	if worker.IsWorker() {
		worker.Serve(runCase)
		return
	}
	r := evidence.New("C02", "fault_enumeration")
	r.Rule("phase single: case = seeded DAG ≤ 10 nodes × pairing × API ∈ {Copy, CopyGraph, ExtendedCopyGraph} × Concurrency ∈ {1,3}; a fault-free run lists the reached fault points (op ∈ {src.Fetch, src.Read, src.ReadMid, src.Resolve, src.FetchReference, src.Predecessors, dst.Exists, dst.Push.before/.after, dst.PushReference.before/.after, dst.Tag, dst.Mount, cb.PreCopy/PostCopy/OnCopySkipped/OnMounted/MountFrom}, node, ordinal); every reached point is faulted with an error, with a cancellation reported by the operation and with a cancellation after which the operation still answers normally, plus a call with an already cancelled context, each on fresh stores (exhaustive per case); " +
		"phase multi: 1–3 random simultaneous faults on DAGs ≤ 40 nodes with seeded latencies; phase diamond: an error on a node shared by two parents while a sibling under its owner is slow (a failed node must not release its waiters). Each faulted run is one evaluation; distinct = hash(DAG shape, pairing, API, concurrency, fault point class, kind); non-trivial = the fault was actually hit and the graph has ≥ 3 nodes")
	r.Assume("a hang is declared only on a logical proof: no return, progress counter unchanged, no storage operation in flight, every library goroutine parked; the wall-clock watchdog alone is inconclusive")
	r.Assume("every fault point of the small cases is enumerated; interleavings under Concurrency 3 are sampled")
	worker.Run(r, worker.Opts{Phase: "single", Total: r.N(30, 500), Batch: 2, Timeout: 20 * time.Minute})
	worker.Run(r, worker.Opts{Phase: "multi", Total: r.N(1500, 15000), Batch: 50, Timeout: 20 * time.Minute})
	worker.Run(r, worker.Opts{Phase: "diamond", Total: r.N(400, 5000), Batch: 50, Timeout: 20 * time.Minute})
	if bin := os.Getenv("VERIF_RACE_BIN"); bin != "" {
		raceDir, _ := os.MkdirTemp("", "verif-c02-race-")
		r.Cleanup(func() { os.RemoveAll(raceDir) })
		worker.Run(r, worker.Opts{Phase: "race", Total: r.N(80, 1000), Batch: 20, Bin: bin, Timeout: 30 * time.Minute,
			Env: []string{"GORACE=halt_on_error=0 exitcode=0 log_path=" + filepath.Join(raceDir, "race")}})
		mon.ReportRaces(r, raceDir)
	}
	r.Exhaustive(true)
	r.Set("exhaustive_scope", "single-fault tier: every fault point reached by the fault-free run of each small case, × {error, cancel, cancel-silent} + already-cancelled context")
	r.Finish(r.N(150, 3000))
}

func genOpts(phase string) copymon.GenOpts {
	o := copymon.GenOpts{APIs: []string{"Copy", "CopyGraph", "ExtendedCopyGraph"}, NoOptions: true, MaxDelay: 200 * time.Microsecond}
	if phase == "single" {
		o.MaxNodes = 10
	} else {
		o.MaxNodes = 40
		o.MaxDelay = 2500 * time.Microsecond // slow siblings keep a failure from propagating at once
	}
	return o
}

func makeCase(phase string, i int) *copymon.Case {
	rng := evidence.RandFor(evidence.Seed(), "c02-"+phase, i)
	gp := phase
	if phase == "diamond" {
		gp = "multi"
	}
	c := copymon.GenCase(rng, genOpts(gp))
	if c.API == "ExtendedCopyGraph" && c.SrcKind == "remote" {
		if c.G.Nodes[c.Root].Kind.IsManifestKind() {
			// a registry exposes subject links only; exercise the referrers listing (also through a filter)
			c.SubjectOnly = true
			c.FilterAll = i%2 == 0
			if c.Profile != nil {
				c.Profile.DigestHeader = true
			}
		} else {
			c.SrcKind = "memory"
		}
	}
	if c.API == "ExtendedCopyGraph" && c.SrcKind != "remote" && i%3 == 0 {
		c.FilterAll = true // the filter fetches predecessor manifests to learn their artifact type
	}
	if c.API == "ExtendedCopyGraph" && c.SrcKind != "remote" && i%3 == 1 {
		c.FilterAnno = "org.test.salt" // the annotation filter fetches predecessor manifests to learn their annotations
	}
	if phase == "single" {
		c.Conc = []int{1, 3}[i%2]
	}
	c.Mount = ""
	if c.DstKind == "remote" && i%3 != 1 {
		c.Mount = []string{"ok", "refuse"}[(i/3)%2]
		if c.Profile != nil {
			c.Profile.MountOK = c.Mount == "ok"
		}
	}
	return c
}

type faultSpec struct {
	Point string `json:"point"`
	Kind  string `json:"kind"`
}

// one faulted execution with all monitors; appends verdicts to res.
func execute(ctx context.Context, res *worker.Result, c *copymon.Case, faults []faultSpec, tag string) (restart bool) {
	return executeSlow(ctx, res, c, faults, tag, nil)
}

func executeSlow(ctx context.Context, res *worker.Result, c *copymon.Case, faults []faultSpec, tag string, slow map[int]time.Duration) (restart bool) {
	e, err := c.Setup(ctx)
	if err != nil {
		res.Violate("harness:setup", err.Error(), c.Describe())
		return false
	}
	defer e.Close()
	e.Mon.SlowNode = slow
	cctx, cancel := context.WithCancel(ctx)
	defer cancel()
	e.Mon.Cancel = cancel
	for _, f := range faults {
		e.Mon.Faults = append(e.Mon.Faults, &copymon.Fault{Point: f.Point, Kind: f.Kind})
	}
	witness := func() map[string]any {
		w := c.Describe()
		w["faults"] = faults
		w["reached"] = e.Mon.ReachedPoints()
		w["pushed_order"] = e.Mon.PushedNodes()
		return w
	}
	for _, f := range faults {
		if f.Point == "pre-call" {
			cancel() // the context is already cancelled when the call is made
			e.Mon.Faults = append(e.Mon.Faults, &copymon.Fault{Point: "pre-call", Kind: "cancel", Hit: true})
		}
	}
	out := c.RunSupervised(cctx, e, 2*time.Minute)
	res.Count("faulted_runs", 1)
	res.Count("boundary_events", int64(e.Mon.EventCount()))
	if out.Hung {
		w := witness()
		w["goroutines"] = out.Dump
		res.Violate("hang:"+tag, "call did not return: no progress, nothing in flight (apart from reads that wait for their context to end), every library goroutine parked", w)
		return true
	}
	if out.Stuck {
		res.Inconc = "watchdog fired without a logical hang proof (" + tag + ")"
		return true
	}
	if len(out.Leaked) > 0 {
		w := witness()
		w["goroutines"] = out.Leaked
		res.Violate("goroutine-leak:"+tag, fmt.Sprintf("%d library goroutines still alive after the call returned", len(out.Leaked)), w)
		return true
	}
	if out.StallReleased {
		res.Count("stalled_reads_released_because_nothing_failed", 1)
	}
	hits := e.Mon.HitFaults()
	for _, f := range hits {
		if f.Kind == "stall" && !out.StallReleased {
			res.Count("stalled_reads_ended_by_the_failure_of_another_node", 1)
		}
	}
	if len(hits) == 0 {
		res.Count("fault_not_reached", 1)
	} else {
		res.Count("faults_hit", int64(len(hits)))
		for _, f := range hits {
			if strings.HasPrefix(f.Point, "dst.Mount:") {
				pos := "first"
				if j := strings.LastIndex(f.Point, "#"); j > 0 && f.Point[j+1:] != "0" {
					pos = "later"
				}
				res.Count(fmt.Sprintf("mount_faults_hit_%s_candidate_of_%d", pos, len(c.MountCands)), 1)
			}
		}
	}
	// (a) closure at push completion, (b) closure at quiescence
	if len(e.Mon.Closure) > 0 {
		w := witness()
		w["closure"] = e.Mon.Closure
		res.Violate("closure-at-push:"+tag, e.Mon.Closure[0], w)
		return false
	}
	if gaps := copymon.CheckClosed(ctx, e.Dst.Target, c.G); len(gaps) > 0 {
		w := witness()
		w["gaps"] = gaps
		res.Violate("closure-at-quiescence:"+tag, gaps[0], w)
		return false
	}
	// (c) faults surface
	errorHit := false
	var cbErr error
	for _, f := range hits {
		if f.Kind == "error" {
			errorHit = true
			if strings.HasPrefix(f.Point, "cb.") {
				cbErr = f.Err
			}
		}
	}
	outcome := "ok"
	if out.Err != nil {
		outcome = "error"
	}
	res.Observe("outcomes", tag+"/"+outcome)
	if out.Err == nil {
		missing := copymon.MissingFrom(ctx, e.Dst.Target, c.G, c.ExpectedSet())
		if errorHit {
			res.Violate("success-after-fault:"+tag, fmt.Sprintf("an injected error was hit but the call returned nil (missing nodes: %v)", missing), witness())
			return false
		}
		if len(missing) > 0 && c.Expect >= 0 {
			if key, what := c.CheckC01(ctx, e, out.Returned); strings.HasPrefix(key, "digest-keyed-dst") {
				_ = what
				res.Count("c01_known_shape_skipped", 1)
			} else {
				res.Violate("success-incomplete:"+tag, fmt.Sprintf("call returned nil with nodes %v missing (cancellation lost the race only if the graph is complete)", missing), witness())
				return false
			}
		}
	} else if cbErr != nil && len(hits) == 1 && !errors.Is(out.Err, cbErr) {
		res.Violate("callback-error-not-returned:"+tag, fmt.Sprintf("callback returned %v, call returned %v", cbErr, out.Err), witness())
		return false
	}
	// (e) fault-free re-run on the same destination completes the graph
	c.Rewrap(e)
	rr := c.RunSupervised(ctx, e, 2*time.Minute)
	if rr.Hung || rr.Stuck {
		if rr.Hung {
			w := witness()
			w["goroutines"] = rr.Dump
			res.Violate("hang-on-rerun:"+tag, "fault-free re-run did not return", w)
		} else {
			res.Inconc = "watchdog fired on re-run"
		}
		return true
	}
	if c.Expect < 0 {
		return false
	}
	if rr.Err != nil {
		res.Violate("rerun-failed:"+tag, fmt.Sprintf("fault-free re-run on the same destination failed: %v", rr.Err), witness())
		return false
	}
	if missing := copymon.MissingFrom(ctx, e.Dst.Target, c.G, c.ExpectedSet()); len(missing) > 0 {
		if key, _ := c.CheckC01(ctx, e, rr.Returned); strings.HasPrefix(key, "digest-keyed-dst") {
			res.Count("c01_known_shape_skipped", 1)
			return false
		}
		res.Violate("rerun-incomplete:"+tag, fmt.Sprintf("fault-free re-run left nodes %v missing", missing), witness())
		return false
	}
	if c.API == "Copy" {
		if key, what := c.CheckC01(ctx, e, rr.Returned); key != "" && !strings.HasPrefix(key, "digest-keyed-dst") {
			res.Violate("rerun-"+key+":"+tag, what, witness())
			return false
		}
	}
	if len(e.Mon.Closure) > 0 {
		res.Violate("closure-at-push:rerun", e.Mon.Closure[0], witness())
	}
	res.Count("reruns_completed", 1)
	return false
}

func pointClass(p string) string {
	if i := strings.Index(p, ":"); i > 0 {
		return p[:i]
	}
	return p
}

func runCase(phase string, i int) worker.Result {
	var res worker.Result
	ctx := context.Background()
	ph := phase
	if phase == "race" {
		ph = "multi"
	}
	c := makeCase(ph, i)
	res.Evals = 0
	if ph == "diamond" {
		return runDiamond(ctx, i)
	}
	if ph == "single" {
		// count run: which points does the fault-free execution reach?
		e, err := c.Setup(ctx)
		if err != nil {
			res.Violate("harness:setup", err.Error(), c.Describe())
			return res
		}
		out := c.RunSupervised(ctx, e, 2*time.Minute)
		points := e.Mon.ReachedPoints()
		closure := e.Mon.Closure
		e.Close()
		if out.Hung {
			w := c.Describe()
			w["goroutines"] = out.Dump
			res.Violate("hang:fault-free", "fault-free run did not return: no progress, nothing in flight, every library goroutine parked", w)
			res.Restart = true
			res.Evals = 1
			return res
		}
		if out.Stuck {
			res.Inconc = "watchdog fired on the fault-free run without a logical hang proof"
			res.Restart = true
			res.Evals = 1
			return res
		}
		if len(closure) > 0 {
			res.Violate("closure-at-push:fault-free", closure[0], c.Describe())
		}
		// de-duplicate (ordinals make them unique already) and sort for determinism
		sort.Strings(points)
		points = append([]string{"pre-call"}, points...)
		res.Count("fault_points_enumerated", int64(len(points)))
		if out.Err != nil && c.Expect >= 0 {
			res.Count("fault_free_failures", 1)
		}
		nt := 0
		for _, p := range points {
			for _, kind := range []string{"error", "cancel", "cancel-silent"} {
				if p == "pre-call" && kind != "cancel" {
					continue
				}
				before := len(res.Viol)
				restart := execute(ctx, &res, c, []faultSpec{{p, kind}}, pointClass(p)+"/"+kind)
				res.Evals++
				res.ObsN = appendObs(res.ObsN, "fault_point_classes", pointClass(p)+"/"+kind)
				if res.DK == nil {
					res.DK = map[string]bool{}
				}
				res.DK[fmt.Sprintf("%s|%s>%s|%s|c%d|%s/%s", c.G.Shape(c.Root), c.SrcKind, c.DstKind, c.API, c.Conc, p, kind)] = len(c.G.Reach(c.Root)) >= 3
				nt++
				if restart {
					res.Restart = true
					break
				}
				if len(res.Viol) > before+3 {
					break
				}
			}
			if res.Restart || len(res.Viol) > 6 {
				break
			}
		}
		// each (case, point, kind) is a distinct fault-enumeration item
		for _, p := range points {
			res.Observe("case_point_pairs", fmt.Sprintf("%d/%s", i, p))
		}
		if i%7 == 0 {
			d := c.Describe()
			d["fault_points"] = points
			res.Sample = d
		}
		return res
	}
	// multi: random faults among plausible points
	rng := evidence.RandFor(evidence.Seed(), "c02-faults-"+phase, i)
	nodes := c.G.Reach(c.Root)
	if c.API == "ExtendedCopyGraph" {
		nodes = c.ExpectedSet()
	}
	ops := []string{"src.Fetch", "src.Read", "src.ReadMid", "dst.Exists", "dst.Push.before", "dst.Push.after", "cb.PreCopy", "cb.PostCopy", "cb.OnCopySkipped", "dst.Tag", "dst.PushReference.before", "dst.PushReference.after", "src.Predecessors", "dst.Mount", "cb.MountFrom", "cb.OnMounted"}
	k := 1 + rng.IntN(3)
	var faults []faultSpec
	for j := 0; j < k; j++ {
		op := ops[rng.IntN(len(ops))]
		n := nodes[rng.IntN(len(nodes))]
		filtered := c.FilterAll || c.FilterAnno != ""
		if c.API == "ExtendedCopyGraph" && (rng.IntN(2) == 0 || (filtered && rng.IntN(2) == 0)) {
			// the upward walk: fault the predecessor listing of a node that is walked
			op = "src.Predecessors"
			var anc []int
			if c.SubjectOnly {
				anc = copymon.ReferrerAncestors(c.G, c.Root)
			} else {
				anc = copymon.Ancestors(c.G, c.Root)
			}
			n = anc[rng.IntN(len(anc))]
			if (c.FilterAll || c.FilterAnno != "") && !c.SubjectOnly && rng.IntN(2) == 0 {
				op = "src.Fetch" // the filter's own read of a predecessor manifest
			}
		}
		ord := 0
		if c.Mount != "" && rng.IntN(2) == 0 {
			// the mount path: a fault on any of the candidate repositories, not only the first
			var blobs []int
			for _, x := range nodes {
				if !c.G.Nodes[x].Kind.IsManifestKind() {
					blobs = append(blobs, x)
				}
			}
			if len(blobs) > 0 {
				op = []string{"dst.Mount", "dst.Mount", "cb.MountFrom", "cb.OnMounted"}[rng.IntN(4)]
				n = blobs[rng.IntN(len(blobs))]
				if op == "dst.Mount" && len(c.MountCands) > 1 {
					ord = rng.IntN(len(c.MountCands))
				}
			}
		}
		kind := []string{"error", "error", "cancel", "cancel-silent"}[rng.IntN(4)]
		faults = append(faults, faultSpec{fmt.Sprintf("%s:%d#%d", op, n, ord), kind})
	}
	if rng.IntN(4) == 0 {
		// a read of a manifest from a silent peer (it ends only when its context does) while
		// another node fails: the failure must reach the pending read
		var mans, others []int
		for _, x := range nodes {
			if c.G.Nodes[x].Kind.IsManifestKind() {
				mans = append(mans, x)
			}
		}
		if len(mans) > 0 {
			y := mans[rng.IntN(len(mans))]
			// the failing node is processed while the read is pending only if it lies in another
			// branch: neither below nor above the stalled manifest
			rel := map[int]bool{}
			for _, x := range c.G.Reach(y) {
				rel[x] = true
			}
			for _, x := range nodes {
				for _, z := range c.G.Reach(x) {
					if z == y {
						rel[x] = true
					}
				}
			}
			for _, x := range nodes {
				if !rel[x] {
					others = append(others, x)
				}
			}
			if len(others) > 0 && c.Conc != 1 {
				x := others[rng.IntN(len(others))]
				op := []string{"dst.Exists", "dst.Exists", "src.Fetch", "cb.PreCopy"}[rng.IntN(4)]
				faults = append(faults, faultSpec{fmt.Sprintf("src.Fetch:%d#0", y), "stall"}, faultSpec{fmt.Sprintf("%s:%d#0", op, x), "error"})
				res.Count("cases_with_stalled_manifest_read", 1)
			}
		}
	}
	res.Restart = execute(ctx, &res, c, faults, "multi")
	res.Evals = 1
	cls := []string{}
	for _, f := range faults {
		cls = append(cls, pointClass(f.Point)+"/"+f.Kind)
	}
	sort.Strings(cls)
	res.Key = fmt.Sprintf("%s|%s>%s|%s|c%d|%s", c.G.Shape(c.Root), c.SrcKind, c.DstKind, c.API, c.Conc, strings.Join(cls, ","))
	res.NT = res.Cnt["faults_hit"] > 0 && len(nodes) >= 3
	if i%101 == 0 {
		d := c.Describe()
		d["faults"] = faults
		res.Sample = d
	}
	return res
}

func appendObs(m map[string][]string, k, v string) map[string][]string {
	if m == nil {
		m = map[string][]string{}
	}
	m[k] = append(m[k], v)
	return m
}

// runDiamond aims at the shape behind "a failed node must not release the
// parents that wait for it": a node A shared by two parents fails while a slow
// sibling B under A's owner keeps the failure from propagating at once.
func runDiamond(ctx context.Context, i int) worker.Result {
	var res worker.Result
	c := makeCase("diamond", i)
	c.Conc = []int{3, 4, 8}[i%3]
	c.Prepop = nil
	c.PreTag = -1
	rng := evidence.RandFor(evidence.Seed(), "c02-diamond-faults", i)
	g := c.G
	nodes := g.Reach(c.Root)
	if c.API == "ExtendedCopyGraph" {
		nodes = c.ExpectedSet()
	}
	in := map[int]bool{}
	for _, n := range nodes {
		in[n] = true
	}
	type cand struct{ a, p, b int }
	var cands []cand
	for _, a := range nodes {
		var parents []int
		for _, p := range g.Preds(a) {
			if in[p] {
				parents = append(parents, p)
			}
		}
		if len(parents) < 2 {
			continue
		}
		for _, p := range parents {
			for _, b := range g.SuccSet(p) {
				if b != a {
					cands = append(cands, cand{a, p, b})
				}
			}
		}
	}
	res.Evals = 1
	if len(cands) == 0 {
		res.Count("diamond_cases_without_shared_node", 1)
		res.Key = "noshared|" + c.Key()
		return res
	}
	pick := cands[rng.IntN(len(cands))]
	op := []string{"dst.Push.before", "src.Fetch", "cb.PreCopy", "dst.Exists", "src.ReadMid"}[rng.IntN(5)]
	faults := []faultSpec{{fmt.Sprintf("%s:%d#0", op, pick.a), "error"}}
	slow := map[int]time.Duration{pick.b: time.Duration(5+rng.IntN(20)) * time.Millisecond}
	res.Restart = executeSlow(ctx, &res, c, faults, "diamond", slow)
	res.Count("diamond_cases", 1)
	res.Key = fmt.Sprintf("%s|%s>%s|%s|c%d|diamond:%s", g.Shape(c.Root), c.SrcKind, c.DstKind, c.API, c.Conc, op)
	res.NT = res.Cnt["faults_hit"] > 0
	if i%97 == 0 {
		d := c.Describe()
		d["faults"], d["slow_node"], d["shared_node"], d["owner_parent"] = faults, pick.b, pick.a, pick.p
		res.Sample = d
	}
	return res
}
