// C07 — Predecessors is exact for every push order, after deletes, GC and reopen.
//
// Monitor: after every step of a random history (push in some order, delete,
// GC, re-push, reopen) the set returned by Predecessors(n), for every node n of
// the generated DAG whether stored or not, is compared with the generator's
// own inverse edge list restricted to the nodes currently stored.
package main

import (
	"archive/tar"
	"bytes"
	"context"
	_ "crypto/sha256"
	_ "crypto/sha512"
	"encoding/json"
	"errors"
	"fmt"
	"io"
	"io/fs"
	"math/rand/v2"
	"os"
	"os/exec"
	"path/filepath"
	"runtime"
	"sort"
	"strings"
	"sync"
	"sync/atomic"
	"time"

	ocispec "github.com/opencontainers/image-spec/specs-go/v1"
	"oras.land/oras-go/v2/content"
	"oras.land/oras-go/v2/content/file"
	"oras.land/oras-go/v2/content/memory"
	"oras.land/oras-go/v2/content/oci"
	"oras.land/oras-go/v2/errdef"
	"oras.land/oras-go/v2/internal/verifhook"
	"oras.land/oras-go/v2/verifharness/evidence"
	"oras.land/oras-go/v2/verifharness/gen"
	"oras.land/oras-go/v2/verifharness/worker"
)

var ctx = context.Background()

var hookHits atomic.Int64

type graphStore interface {
	content.Storage
	content.PredecessorFinder
}

func main() {
	if worker.IsWorker() {
		worker.Serve(runCase)
		return
	}
	r := evidence.New("C07", "exploration")
	r.Rule("case = (seeded DAG ≤ N nodes without media-type twins, store kind ∈ {memory, oci, file}, push-order class ∈ {children-first, parents-first, random, concurrent, partial}, " +
		"post-history of Delete/GC/GC meeting a corrupt blob/re-push/re-push of a manifest whose index.json update fails/reopen(dir|fs.FS|tar|system tar)/reopen after index.json was cut down to tags and top-level manifests (as other image tools write it) on oci); after every step Predecessors(n) for every DAG node n and for every foreign (never stored) layer is compared as a set (and for duplicates) with the generator's inverse edges restricted to stored nodes; " +
		"distinct = hash(DAG shape, kind, order class, history ops); non-trivial = some node has ≥2 stored predecessors and some parent was pushed before one of its children")
	r.Assume("one media type per digest in this check (media-type twins belong to C01)")
	worker.Run(r, worker.Opts{Phase: "hist", Total: r.N(3000, 30000), Batch: 100})
	if bin := os.Getenv("VERIF_RACE_BIN"); bin != "" {
		raceDir, _ := os.MkdirTemp("", "verif-c07-race-")
		r.Cleanup(func() { os.RemoveAll(raceDir) })
		worker.Run(r, worker.Opts{Phase: "race", Total: r.N(60, 1500), Batch: 30, Bin: bin,
			Env: []string{"GORACE=halt_on_error=0 exitcode=0 log_path=" + filepath.Join(raceDir, "race")}})
		n := countRaceReports(raceDir, r)
		r.Set("race_reports_in_library", n)
	}
	r.Finish(r.N(300, 3000))
}

// countRaceReports counts DATA RACE blocks with a library frame.
func countRaceReports(dir string, r *evidence.Run) int {
	files, _ := filepath.Glob(filepath.Join(dir, "race*"))
	n := 0
	for _, f := range files {
		b, _ := os.ReadFile(f)
		for _, blk := range strings.Split(string(b), "==================") {
			if !strings.Contains(blk, "WARNING: DATA RACE") {
				continue
			}
			lib := false
			for _, l := range strings.Split(blk, "\n") {
				if strings.Contains(l, "oras.land/oras-go/v2/") && !strings.Contains(l, "verifharness") {
					lib = true
				}
			}
			if lib {
				n++
				r.Violation("race", "data race reported by the race detector in library code", blk)
			} else {
				r.Violation("harness:race", "data race inside the harness itself", blk)
			}
		}
	}
	return n
}

type step struct {
	Op   string `json:"op"`
	Node int    `json:"node,omitempty"`
}

func runCase(phase string, i int) (res worker.Result) {
	seed := evidence.Seed()
	rng := evidence.RandFor(seed, "c07-"+phase, i)
	n := 6 + rng.IntN(24)
	o := gen.DefaultOpts(rng, n)
	o.DupMediaType = false
	o.ManifestAsBlob = false
	o.Foreign = rng.IntN(3) == 0
	o.AbsentSubjects = rng.IntN(3) == 0
	o.SHA512 = rng.IntN(3) == 0
	wide := phase != "race" && i%40 == 7
	if wide {
		// a wide fan-out: one index over a few hundred manifests (many nodes in flight when a layout is loaded)
		o.Manifests = 80 + rng.IntN(220)
		o.Blobs = 20
		o.WideIndex = o.Manifests
		o.SHA512 = false
	}
	g := gen.Generate(rng, o)
	kinds := []string{"memory", "oci", "oci", "file"}
	kind := kinds[rng.IntN(len(kinds))]
	if wide {
		kind = "oci"
		res.Count("wide_fanout_cases", 1)
	}
	if phase == "race" {
		kind = []string{"memory", "oci", "file"}[i%3]
	}
	orderClass := []string{"children-first", "parents-first", "random", "concurrent", "partial"}[rng.IntN(5)]
	if phase == "race" {
		orderClass = "concurrent"
	}

	// one media type per digest: drop nodes whose digest duplicates an earlier one
	seenDigest := map[string]bool{}
	usable := []int{}
	for _, nd := range g.Nodes {
		if seenDigest[nd.Desc.Digest.String()] {
			continue
		}
		seenDigest[nd.Desc.Digest.String()] = true
		usable = append(usable, nd.ID)
	}
	skip := map[int]bool{}
	for _, nd := range g.Nodes {
		skip[nd.ID] = true
	}
	for _, id := range usable {
		skip[id] = false
	}
	// a parent of a dropped twin would have an edge to a digest stored under
	// another media type; drop such parents too (transitively)
	for changed := true; changed; {
		changed = false
		for _, nd := range g.Nodes {
			if skip[nd.ID] {
				continue
			}
			for _, s := range nd.Succ {
				if skip[s] {
					skip[nd.ID] = true
					changed = true
					break
				}
			}
		}
	}
	var nodes []int
	for _, nd := range g.Nodes {
		if !skip[nd.ID] {
			nodes = append(nodes, nd.ID)
		}
	}

	var dir string
	var st graphStore
	var ociStore *oci.Store
	cleanup := func() {}
	switch kind {
	case "memory":
		st = memory.New()
	case "oci":
		dir, _ = os.MkdirTemp("", "verif-c07-")
		cleanup = func() { os.RemoveAll(dir) }
		s, err := oci.New(dir)
		if err != nil {
			res.Violate("harness:oci.New", err.Error(), nil)
			return res
		}
		s.AutoGC = rng.IntN(2) == 0
		ociStore, st = s, s
	case "file":
		dir, _ = os.MkdirTemp("", "verif-c07-")
		s, err := file.New(dir)
		if err != nil {
			res.Violate("harness:file.New", err.Error(), nil)
			return res
		}
		cleanup = func() { s.Close(); os.RemoveAll(dir) }
		s.ForceCAS = rng.IntN(3) == 0
		if s.ForceCAS {
			res.Count("file_stores_with_ForceCAS", 1)
		}
		st = s
	}
	defer cleanup()

	stored := map[int]bool{}
	var history []step
	parentBeforeChild := false

	check := func(where string) bool {
		for _, nd := range g.Nodes {
			if skip[nd.ID] {
				continue
			}
			want := map[string]bool{}
			for _, p := range g.Preds(nd.ID) {
				if stored[p] && !skip[p] {
					want[gen.Key(g.Nodes[p].Desc)] = true
				}
			}
			got, err := st.Predecessors(ctx, nd.Desc)
			if err != nil {
				res.Violate("predecessors-error", fmt.Sprintf("%s: Predecessors(node %d) error: %v", where, nd.ID, err), witness(g, kind, orderClass, history))
				return false
			}
			gotSet := map[string]bool{}
			for _, d := range got {
				k := gen.Key(d)
				if gotSet[k] {
					res.Violate("predecessors-duplicate", fmt.Sprintf("%s: Predecessors(node %d) lists %s twice", where, nd.ID, k), witness(g, kind, orderClass, history))
					return false
				}
				gotSet[k] = true
			}
			if !sameSet(want, gotSet) {
				res.Violate("predecessors-mismatch", fmt.Sprintf("%s (%s): Predecessors(node %d %s) = %v, want %v", where, kind, nd.ID, nd.Kind, keys(gotSet), keys(want)), witness(g, kind, orderClass, history))
				return false
			}
			res.Count("predecessor_queries", 1)
		}
		// foreign layers are referenced by a manifest's layers like any other
		// blob; they are never stored ("whether or not n itself is present")
		for _, nd := range g.Nodes {
			if skip[nd.ID] {
				continue
			}
			for _, fd := range nd.Foreign {
				got, err := st.Predecessors(ctx, fd)
				if err != nil {
					res.Violate("predecessors-error", fmt.Sprintf("%s: Predecessors(foreign layer of node %d) error: %v", where, nd.ID, err), witness(g, kind, orderClass, history))
					return false
				}
				// two manifests may carry the same foreign descriptor (tiny random contents collide)
				want := map[string]bool{}
				for _, other := range g.Nodes {
					if skip[other.ID] || !stored[other.ID] {
						continue
					}
					for _, ofd := range other.Foreign {
						if gen.Key(ofd) == gen.Key(fd) {
							want[gen.Key(other.Desc)] = true
						}
					}
				}
				gotSet := map[string]bool{}
				for _, d := range got {
					gotSet[gen.Key(d)] = true
				}
				if !sameSet(want, gotSet) || len(got) != len(gotSet) {
					res.Violate("predecessors-mismatch:foreign-layer", fmt.Sprintf("%s (%s): Predecessors(foreign layer %s of node %d) = %v, want %v", where, kind, fd.Digest.Encoded()[:12], nd.ID, keys(gotSet), keys(want)), witness(g, kind, orderClass, history))
					return false
				}
				res.Count("predecessor_queries_for_foreign_layers", 1)
			}
		}
		return true
	}

	cancelPushes := phase != "race" && rng.IntN(4) == 0
	var cancelledPushes, cancelledStored atomic.Int64
	defer func() {
		res.Count("pushes_cancelled_at_last_byte", cancelledPushes.Load())
		res.Count("cancelled_pushes_failed_but_stored", cancelledStored.Load())
	}()
	push := func(id int) error {
		nd := g.Nodes[id]
		if cancelPushes && len(nd.Bytes) > 0 && id%3 == 0 {
			// the caller's context ends while the last byte is being read: whatever the
			// outcome, a manifest that is stored afterwards must show up as predecessor
			cctx, cancel := context.WithCancel(ctx)
			err := st.Push(cctx, nd.Desc, &cancelAtEnd{r: bytes.NewReader(nd.Bytes), left: len(nd.Bytes), cancel: cancel})
			cancel()
			cancelledPushes.Add(1)
			if err != nil && !errors.Is(err, errdef.ErrAlreadyExists) {
				if ok, eerr := st.Exists(ctx, nd.Desc); eerr == nil && ok {
					cancelledStored.Add(1)
					return nil // stored: judged like any stored node
				}
				return errNotStored
			}
			return nil
		}
		err := st.Push(ctx, nd.Desc, bytes.NewReader(nd.Bytes))
		if err != nil && !errors.Is(err, errdef.ErrAlreadyExists) {
			return err
		}
		return nil
	}
	markPushed := func(id int) {
		for _, s := range g.Nodes[id].Succ {
			if !stored[s] {
				parentBeforeChild = true
			}
		}
		stored[id] = true
	}

	order := append([]int{}, nodes...)
	switch orderClass {
	case "parents-first":
		sort.Sort(sort.Reverse(sort.IntSlice(order)))
	case "random", "concurrent", "partial":
		rng.Shuffle(len(order), func(a, b int) { order[a], order[b] = order[b], order[a] })
	}
	if orderClass == "partial" {
		order = order[:len(order)*2/3+1]
		if len(order) > len(nodes) {
			order = nodes
		}
	}
	if orderClass == "concurrent" {
		// widen the windows between the store's critical sections
		jseed := rng.Uint64()
		var jn atomic.Uint64
		h := func(point, key string) {
			v := (jn.Add(1)*0x9e3779b97f4a7c15 ^ jseed) >> 40
			for j := uint64(0); j < v%3; j++ {
				runtime.Gosched()
			}
			if v%5 == 0 {
				time.Sleep(time.Duration(v%50) * time.Microsecond)
			}
			hookHits.Add(1)
		}
		verifhook.Handler.Store(&h)
		defer verifhook.Handler.Store(nil)
		var wg sync.WaitGroup
		var mu sync.Mutex
		var firstErr error
		k := 2 + rng.IntN(15)
		ch := make(chan int)
		for w := 0; w < k; w++ {
			wg.Add(1)
			go func() {
				defer wg.Done()
				for id := range ch {
					if err := push(id); err != nil {
						mu.Lock()
						if firstErr == nil {
							firstErr = fmt.Errorf("node %d: %w", id, err)
						}
						mu.Unlock()
					}
				}
			}()
		}
		// readers query while the parents are being pushed: whatever instant they see, an answer
		// holds only true predecessors, each once
		stopQ := make(chan struct{})
		var qwg sync.WaitGroup
		var queries atomic.Int64
		var badAnswer atomic.Value
		for q, nq := 0, 1+rng.IntN(4); q < nq; q++ {
			qwg.Add(1)
			qseed := rng.Uint64()
			go func() {
				defer qwg.Done()
				qr := rand.New(rand.NewPCG(qseed, 7))
				for {
					select {
					case <-stopQ:
						return
					default:
					}
					nd := g.Nodes[nodes[qr.IntN(len(nodes))]]
					got, err := st.Predecessors(ctx, nd.Desc)
					queries.Add(1)
					if err != nil {
						badAnswer.CompareAndSwap(nil, fmt.Sprintf("Predecessors(node %d) during concurrent pushes: %v", nd.ID, err))
						return
					}
					truth := map[string]bool{}
					for _, p := range g.Preds(nd.ID) {
						truth[gen.Key(g.Nodes[p].Desc)] = true
					}
					seen := map[string]bool{}
					for _, d := range got {
						k := gen.Key(d)
						if !truth[k] || seen[k] {
							badAnswer.CompareAndSwap(nil, fmt.Sprintf("Predecessors(node %d) during concurrent pushes lists %s (true predecessor: %v, listed before: %v)", nd.ID, k, truth[k], seen[k]))
							return
						}
						seen[k] = true
					}
				}
			}()
		}
		for _, id := range order {
			ch <- id
		}
		close(ch)
		wg.Wait()
		close(stopQ)
		qwg.Wait()
		res.Count("predecessor_queries_during_concurrent_pushes", queries.Load())
		if b := badAnswer.Load(); b != nil {
			res.Violate("predecessors-mismatch:during-concurrent-push", b.(string), witness(g, kind, orderClass, history))
			return res
		}
		if firstErr != nil {
			res.Violate("push-failed", "concurrent push failed: "+firstErr.Error(), witness(g, kind, orderClass, history))
			return res
		}
		// which parent completed before which child is unknown; count by position
		pos := map[int]int{}
		for p, id := range order {
			pos[id] = p
		}
		for _, id := range order {
			for _, s := range g.Nodes[id].Succ {
				if ps, ok := pos[s]; !ok || ps > pos[id] {
					parentBeforeChild = true
				}
			}
			stored[id] = true
		}
		history = append(history, step{Op: fmt.Sprintf("push-concurrent(%d workers)", k)})
		if !check("after concurrent push") {
			return res
		}
		res.Count("hook_hits", int64(hookHits.Load()))
		if kind == "oci" {
			// what the concurrent pushes left on disk must reopen to the same relation
			ro, how, err := reopen(dir, rng.IntN(4))
			if err != nil {
				res.Violate("reopen-failed", fmt.Sprintf("reopen(%s) after concurrent pushes: %v", how, err), witness(g, kind, orderClass, history))
				return res
			}
			saved := st
			st = roStore{ro}
			ok := check("after concurrent push and reopen-" + how)
			st = saved
			if !ok {
				return res
			}
		}
	} else {
		for n, id := range order {
			if err := push(id); err != nil {
				if err == errNotStored {
					history = append(history, step{Op: "push-cancelled-not-stored", Node: id})
					continue
				}
				res.Violate("push-failed", fmt.Sprintf("push node %d: %v", id, err), witness(g, kind, orderClass, history))
				return res
			}
			markPushed(id)
			history = append(history, step{Op: "push", Node: id})
			if n%4 == 3 || n == len(order)-1 {
				if !check(fmt.Sprintf("after push #%d", n)) {
					return res
				}
			}
		}
	}

	histKinds := ""
	if kind == "oci" && phase != "race" {
		// tag some manifests so that GC has something to keep
		for _, id := range nodes {
			if stored[id] && g.Nodes[id].Kind.IsManifestKind() && rng.IntN(3) == 0 {
				if err := ociStore.Tag(ctx, g.Nodes[id].Desc, fmt.Sprintf("t%d", id)); err != nil {
					res.Violate("tag-failed", fmt.Sprintf("Tag(node %d): %v", id, err), witness(g, kind, orderClass, history))
					return res
				}
				history = append(history, step{Op: "tag", Node: id})
			}
		}
		steps := 2 + rng.IntN(8)
		foreignLayout, noMoreReopen := false, false
		for s := 0; s < steps; s++ {
			op := rng.IntN(12)
			if op == 11 {
				// a GC whose context is already over: it fails and changes nothing, or it succeeds and is judged like any GC
				cctx, cancel := context.WithCancel(ctx)
				cancel()
				before := existing(st, g, nodes)
				named := 0
				_ = ociStore.Tags(ctx, "", func(tags []string) error {
					for _, tg := range tags {
						if !strings.Contains(tg, ":") {
							named++
						}
					}
					return nil
				})
				gcErr := ociStore.GC(cctx)
				history = append(history, step{Op: fmt.Sprintf("gc-under-cancelled-context(err=%v, named tags before=%d)", gcErr != nil, named)})
				histKinds += "k"
				after := existing(st, g, nodes)
				if gcErr != nil {
					res.Count("cancelled_gc_steps_failed", 1)
					for _, n := range nodes {
						if before[n] != after[n] {
							res.Violate("failed-gc-changed-content", fmt.Sprintf("a GC that returned %v changed whether node %d is stored (%v -> %v)", gcErr, n, before[n], after[n]), witness(g, kind, orderClass, history))
							return res
						}
					}
					if named == 0 {
						// without a named tag the index reload has nothing to traverse, never meets the dead
						// context, and installs the (empty) rebuilt graph before the sweep notices: see
						// known_findings.json. Judged under its own key; the case ends here.
						saved := len(res.Viol)
						if !check("after gc-under-cancelled-context") {
							for j := saved; j < len(res.Viol); j++ {
								if res.Viol[j].Key == "predecessors-mismatch" {
									res.Viol[j].Key = "interrupted-gc-forgets-stored-manifests:no-named-tag"
								}
							}
						}
						return res
					}
				} else {
					for _, n := range nodes {
						stored[n] = after[n]
					}
				}
				if !check("after gc-under-cancelled-context") {
					return res
				}
				continue
			}
			if wide && s == 0 {
				op = 10 // the wide graph is loaded from a layout that lists its top only
			}
			switch {
			case op == 10: // the layout as other tools write it: index.json lists the tags and the top-level manifests only
				if noMoreReopen {
					continue
				}
				kept, dropped, err := rootsOnlyIndex(dir, g, nodes, stored)
				if err != nil {
					res.Violate("harness:roots-only-index", err.Error(), witness(g, kind, orderClass, history))
					return res
				}
				rw, err := oci.New(dir)
				if err != nil {
					res.Violate("reopen-failed", fmt.Sprintf("reopen(rw, index.json listing roots only): %v", err), witness(g, kind, orderClass, history))
					return res
				}
				rw.AutoGC = ociStore.AutoGC
				ociStore, st = rw, rw
				foreignLayout = foreignLayout || dropped > 0
				history = append(history, step{Op: fmt.Sprintf("reopen-rw-roots-only-index(kept %d, dropped %d entries)", kept, dropped)})
				histKinds += "f"
				res.Count("reopens_with_roots_only_index", 1)
				res.Count("nested_manifests_not_listed_in_index", int64(dropped))
			case op < 4: // delete a stored node
				var cands []int
				for _, id := range nodes {
					if stored[id] {
						cands = append(cands, id)
					}
				}
				if len(cands) == 0 {
					continue
				}
				id := cands[rng.IntN(len(cands))]
				before := existing(st, g, nodes)
				if err := ociStore.Delete(ctx, g.Nodes[id].Desc); err != nil {
					res.Violate("delete-failed", fmt.Sprintf("Delete(node %d): %v", id, err), witness(g, kind, orderClass, history))
					return res
				}
				history = append(history, step{Op: "delete", Node: id})
				histKinds += "d"
				if foreignLayout {
					// a manifest that index.json does not list and that lost its parent
					// cannot be found again by a later load: nothing on disk says it is a manifest
					noMoreReopen = true
				}
				// what is stored now is observed (the cascade is C09's subject)
				after := existing(st, g, nodes)
				for n := range before {
					if !after[n] {
						stored[n] = false
					}
				}
			case op == 4: // GC that meets a corrupted manifest blob: a failed GC must change nothing
				var cands []int
				for _, id := range nodes {
					if stored[id] && g.Nodes[id].Kind.IsManifestKind() {
						cands = append(cands, id)
					}
				}
				if len(cands) == 0 {
					continue
				}
				id := cands[rng.IntN(len(cands))]
				blobPath := filepath.Join(dir, "blobs", g.Nodes[id].Desc.Digest.Algorithm().String(), g.Nodes[id].Desc.Digest.Encoded())
				orig, rerr := os.ReadFile(blobPath)
				if rerr != nil {
					continue
				}
				os.Chmod(blobPath, 0o644)
				if werr := os.WriteFile(blobPath, []byte("{corrupted"), 0o644); werr != nil {
					continue
				}
				gcErr := ociStore.GC(ctx)
				if _, serr := os.Stat(blobPath); serr == nil {
					os.WriteFile(blobPath, orig, 0o444)
				}
				history = append(history, step{Op: fmt.Sprintf("gc-with-corrupt-blob(err=%v)", gcErr != nil), Node: id})
				histKinds += "c"
				if gcErr == nil {
					after := existing(st, g, nodes)
					for _, n := range nodes {
						stored[n] = after[n]
					}
				} else {
					res.Count("failed_gc_steps", 1)
				}
			case op < 6: // GC
				if err := ociStore.GC(ctx); err != nil {
					res.Violate("gc-failed", fmt.Sprintf("GC: %v", err), witness(g, kind, orderClass, history))
					return res
				}
				history = append(history, step{Op: "gc"})
				histKinds += "g"
				after := existing(st, g, nodes)
				for _, n := range nodes {
					stored[n] = after[n]
				}
			case op < 8: // re-push a missing node
				var cands []int
				for _, id := range nodes {
					if !stored[id] {
						cands = append(cands, id)
					}
				}
				if len(cands) == 0 {
					continue
				}
				id := cands[rng.IntN(len(cands))]
				if g.Nodes[id].Kind.IsManifestKind() && rng.IntN(3) == 0 {
					// the push of a manifest whose index.json update fails: whatever Push
					// answers, Predecessors must agree with what is stored afterwards
					idxPath := filepath.Join(dir, "index.json")
					aside := idxPath + ".aside"
					if os.Rename(idxPath, aside) == nil {
						os.MkdirAll(filepath.Join(idxPath, "x"), 0o755)
						perr := st.Push(ctx, g.Nodes[id].Desc, bytes.NewReader(g.Nodes[id].Bytes))
						os.RemoveAll(idxPath)
						os.Rename(aside, idxPath)
						if perr != nil {
							res.Count("manifest_pushes_with_failing_index_save", 1)
						}
						// bring index.json up to date again for later reopen steps
						if serr := ociStore.SaveIndex(); serr != nil {
							res.Violate("harness:save-index", serr.Error(), witness(g, kind, orderClass, history))
							return res
						}
						if ok, eerr := st.Exists(ctx, g.Nodes[id].Desc); eerr == nil && ok {
							markPushed(id)
							if perr != nil {
								res.Count("failed_manifest_pushes_left_stored", 1)
							}
						}
						history = append(history, step{Op: fmt.Sprintf("repush-with-failing-index-save(err=%v)", perr != nil), Node: id})
						histKinds += "x"
						break
					}
				}
				if err := push(id); err != nil {
					res.Violate("push-failed", fmt.Sprintf("re-push node %d: %v", id, err), witness(g, kind, orderClass, history))
					return res
				}
				markPushed(id)
				history = append(history, step{Op: "repush", Node: id})
				histKinds += "p"
			default: // reopen
				if noMoreReopen {
					continue
				}
				mode := rng.IntN(4)
				ro, how, err := reopen(dir, mode)
				if err != nil {
					res.Violate("reopen-failed", fmt.Sprintf("reopen(%s): %v", how, err), witness(g, kind, orderClass, history))
					return res
				}
				history = append(history, step{Op: "reopen-" + how})
				histKinds += "r" + fmt.Sprint(mode)
				// GC-less untagged blobs are indexed on load only if reachable from index.json;
				// stored-ness for the reopened view is what it reports
				saved := st
				if rw, ok := ro.(*oci.Store); ok {
					rw.AutoGC = ociStore.AutoGC
					ociStore, st = rw, rw
					saved = rw
				} else {
					st = roStore{ro}
				}
				// The reopened store only knows predecessors among nodes reachable from index.json
				// entries; compute what it can know: every stored manifest was tagged by digest on push,
				// so all stored manifests are indexed unless GC/delete removed them.
				ok := check("after reopen-" + how)
				st = saved
				if !ok {
					return res
				}
				continue
			}
			if !check(fmt.Sprintf("after %s", history[len(history)-1].Op)) {
				return res
			}
		}
	}

	multi := false
	for _, id := range nodes {
		c := 0
		for _, p := range g.Preds(id) {
			if stored[p] && !skip[p] {
				c++
			}
		}
		if c >= 2 {
			multi = true
		}
	}
	res.Key = fmt.Sprintf("%s|%s|%s|%s", g.Shape(g.Roots()...), kind, orderClass, histKinds)
	res.NT = multi && parentBeforeChild
	res.Count("history_steps", int64(len(history)))
	res.Observe("order_history_classes", kind+"/"+orderClass+"/"+histKinds)
	if i%97 == 0 {
		res.Sample = witness(g, kind, orderClass, history)
	}
	return res
}

// rootsOnlyIndex rewrites index.json the way image tools other than oras write
// it: the named entries stay, of the entries without a name only those of
// stored manifests that no stored manifest references stay.
func rootsOnlyIndex(dir string, g *gen.DAG, nodes []int, stored map[int]bool) (kept, dropped int, err error) {
	p := filepath.Join(dir, "index.json")
	b, err := os.ReadFile(p)
	if err != nil {
		return 0, 0, err
	}
	var idx ocispec.Index
	if err := json.Unmarshal(b, &idx); err != nil {
		return 0, 0, err
	}
	nested := map[string]bool{}
	for _, id := range nodes {
		if !stored[id] {
			continue
		}
		for _, q := range g.Preds(id) {
			if stored[q] {
				nested[g.Nodes[id].Desc.Digest.String()] = true
			}
		}
	}
	out := idx.Manifests[:0:0]
	for _, d := range idx.Manifests {
		if d.Annotations[ocispec.AnnotationRefName] == "" && nested[d.Digest.String()] {
			dropped++
			continue
		}
		out = append(out, d)
		kept++
	}
	if out == nil {
		out = []ocispec.Descriptor{}
	}
	idx.Manifests = out
	nb, err := json.Marshal(idx)
	if err != nil {
		return 0, 0, err
	}
	return kept, dropped, os.WriteFile(p, nb, 0o644)
}

var errNotStored = errors.New("cancelled push left nothing stored")

// cancelAtEnd cancels a context while the last byte is handed out.
type cancelAtEnd struct {
	r      io.Reader
	left   int
	cancel context.CancelFunc
}

func (c *cancelAtEnd) Read(p []byte) (int, error) {
	n, err := c.r.Read(p)
	c.left -= n
	if c.left <= 0 {
		c.cancel()
	}
	return n, err
}

type roStore struct {
	s interface {
		content.ReadOnlyStorage
		content.PredecessorFinder
	}
}

func (r roStore) Fetch(c context.Context, d ocispec.Descriptor) (io.ReadCloser, error) {
	return r.s.Fetch(c, d)
}
func (r roStore) Exists(c context.Context, d ocispec.Descriptor) (bool, error) {
	return r.s.Exists(c, d)
}
func (r roStore) Push(context.Context, ocispec.Descriptor, io.Reader) error {
	return errors.New("read-only")
}
func (r roStore) Predecessors(c context.Context, d ocispec.Descriptor) ([]ocispec.Descriptor, error) {
	return r.s.Predecessors(c, d)
}

func existing(st graphStore, g *gen.DAG, nodes []int) map[int]bool {
	out := map[int]bool{}
	for _, id := range nodes {
		if ok, err := st.Exists(ctx, g.Nodes[id].Desc); err == nil && ok {
			out[id] = true
		}
	}
	return out
}

// reopen opens the layout again: 0 read-write, 1 fs.FS, 2 tar written by archive/tar, 3 tar written by the system tar.
func reopen(dir string, mode int) (interface {
	content.ReadOnlyStorage
	content.PredecessorFinder
}, string, error) {
	switch mode {
	case 0:
		// a load under a context that is already over must fail, not hand out a store with half a graph
		cctx, cancel := context.WithCancel(ctx)
		cancel()
		if s, err := oci.NewWithContext(cctx, dir); err == nil {
			firstUseCancelled(s)
			return s, "rw-opened-under-cancelled-context", nil
		}
		s, err := oci.New(dir)
		if err == nil {
			firstUseCancelled(s)
		}
		return s, "rw", err
	case 1:
		s, err := oci.NewFromFS(ctx, os.DirFS(dir))
		if err == nil {
			firstUseCancelled(s)
		}
		return s, "fs", err
	case 2:
		tarPath := dir + ".go.tar"
		defer os.Remove(tarPath)
		if err := writeTar(dir, tarPath); err != nil {
			return nil, "gotar", err
		}
		s, err := oci.NewFromTar(ctx, tarPath)
		if err != nil {
			return nil, "gotar", err
		}
		return preload(s), "gotar", nil
	default:
		tarPath := dir + ".sys.tar"
		defer os.Remove(tarPath)
		if out, err := exec.Command("tar", "-cf", tarPath, "-C", dir, ".").CombinedOutput(); err != nil {
			return nil, "systar", fmt.Errorf("tar: %v: %s", err, out)
		}
		s, err := oci.NewFromTar(ctx, tarPath)
		if err != nil {
			return nil, "systar", err
		}
		return preload(s), "systar", nil
	}
}

// firstUseCancelled makes the first graph-using call on a freshly opened store one whose context
// is already over; whatever it answers, later calls with a live context must be exact.
func firstUseCancelled(s content.PredecessorFinder) {
	cctx, cancel := context.WithCancel(ctx)
	cancel()
	_, _ = s.Predecessors(cctx, ocispec.Descriptor{MediaType: "application/vnd.oci.image.manifest.v1+json", Digest: "sha256:0000000000000000000000000000000000000000000000000000000000000000", Size: 2})
}

// preload: the predecessor index of a read-only store is built at load time,
// so the tar file may be removed once the store is constructed.
func preload(s *oci.ReadOnlyStore) *oci.ReadOnlyStore { return s }

func writeTar(dir, tarPath string) error {
	f, err := os.Create(tarPath)
	if err != nil {
		return err
	}
	defer f.Close()
	tw := tar.NewWriter(f)
	err = filepath.WalkDir(dir, func(p string, d fs.DirEntry, err error) error {
		if err != nil {
			return err
		}
		rel, _ := filepath.Rel(dir, p)
		if rel == "." {
			return nil
		}
		info, err := d.Info()
		if err != nil {
			return err
		}
		hdr, err := tar.FileInfoHeader(info, "")
		if err != nil {
			return err
		}
		hdr.Name = filepath.ToSlash(rel)
		if d.IsDir() {
			hdr.Name += "/"
		}
		if err := tw.WriteHeader(hdr); err != nil {
			return err
		}
		if info.Mode().IsRegular() {
			b, err := os.ReadFile(p)
			if err != nil {
				return err
			}
			if _, err := tw.Write(b); err != nil {
				return err
			}
		}
		return nil
	})
	if err != nil {
		return err
	}
	return tw.Close()
}

func sameSet(a, b map[string]bool) bool {
	if len(a) != len(b) {
		return false
	}
	for k := range a {
		if !b[k] {
			return false
		}
	}
	return true
}

func keys(m map[string]bool) []string {
	var out []string
	for k := range m {
		short := k[strings.Index(k, "|")+1:]
		if len(short) > 20 {
			short = short[:20]
		}
		if short == "|0" {
			short = "<empty descriptor>"
		}
		out = append(out, short)
	}
	sort.Strings(out)
	return out
}

func witness(g *gen.DAG, kind, order string, h []step) map[string]any {
	return map[string]any{"store": kind, "order": order, "dag": g.Describe(g.Roots()...), "history": h}
}

var _ = rand.Int
