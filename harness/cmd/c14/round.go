package main

import (
	"bufio"
	"bytes"
	"context"
	"encoding/json"
	"errors"
	"fmt"
	"io"
	"math/rand/v2"
	"net"
	"net/http"
	"net/http/httptest"
	"os"
	"regexp"
	"runtime"
	"sort"
	"strconv"
	"strings"
	"sync"
	"sync/atomic"
	"time"

	"github.com/opencontainers/go-digest"
	ocispec "github.com/opencontainers/image-spec/specs-go/v1"
	"oras.land/oras-go/v2/internal/verifhook"
	"oras.land/oras-go/v2/registry/remote"
	"oras.land/oras-go/v2/verifharness/evidence"
	"oras.land/oras-go/v2/verifharness/regmodel"
	"oras.land/oras-go/v2/verifharness/stores"
	"oras.land/oras-go/v2/verifharness/worker"
)

var ctx = context.Background()

const (
	repoName                = "c14/repo"
	mediaTypeArtifact       = "application/vnd.oci.artifact.manifest.v1+json"
	hookCommitted           = "syncutil.merge.committed"
	phaseSetup        int32 = 0
	phaseDetect       int32 = 1
	phaseRun          int32 = 2
	phaseQuiescent    int32 = 3
)

// ---------------------------------------------------------------- hook

var hookHits atomic.Int64

func installHook() {
	h := func(point, key string) {
		if point == hookCommitted {
			hookHits.Add(1)
		}
	}
	verifhook.Handler.Store(&h)
}

// ---------------------------------------------------------------- plan

type referrer struct {
	ID      int                `json:"id"`
	Subject int                `json:"subject"` // -1: manifest without subject
	Kind    string             `json:"kind"`
	Pre     bool               `json:"pre,omitempty"` // stored and indexed before the round
	Script  []string           `json:"script"`
	Via     int                `json:"via"`
	Owner   int                `json:"owner"`
	First   bool               `json:"first,omitempty"` // its first operation is the first operation of its owner
	Desc    ocispec.Descriptor `json:"-"`
	// PushDesc is the descriptor handed to Push: Desc, or Desc enriched with an
	// artifact type / annotations of the caller's own (as an OCI-layout index
	// entry carries them); the index entry must still show the manifest's.
	PushDesc ocispec.Descriptor `json:"-"`
	Enriched string             `json:"enriched,omitempty"`
	// Spell != 0: the subject descriptor inside the manifest differs from the canonical one
	// in fields other than the digest (bit 1 media type, bit 2 annotations, bit 4 urls)
	Spell  int    `json:"subject_spelling,omitempty"`
	Bytes  []byte `json:"-"`
	Want   string `json:"-"` // normalised descriptor a listing must show
	Digest string `json:"digest"`
}

type subject struct {
	N      int
	Desc   ocispec.Descriptor
	Bytes  []byte
	Stored bool
	Tag    string
	Dirty  string // pre-existing index: "", "clean", "dup", "empty", "both"
	Drain  bool   // every referrer of this subject is deleted again: the index ends up removed
	// Exact > 0: the pre-existing index carries exactly Exact surplus duplicate
	// entries (no empty ones) and exactly Exact new referrers are pushed to the
	// subject, each as the first operation of its worker (or one sequentially).
	Exact int
	// PingPong: the subject only sees mutually inverse Push/Delete of one referrer from two goroutines
	PingPong bool
	// Twin > 0: the subject has no (or an empty) index and ONE new referrer is pushed by
	// Twin goroutines at once, as the first operation of each, nothing else touches it
	Twin int
}

type fault struct {
	Class   string `json:"class"` // iGET iPUT iDEL
	Ordinal int    `json:"ordinal"`
	How     string `json:"how"`
	Fired   bool   `json:"fired"`
	Tag     string `json:"tag,omitempty"`
	// Emptied (iDEL only): the index whose DELETE was failed was still the one
	// the tag pointed to, i.e. the batch had emptied the referrers list and
	// pushed no new index: deleting the old index was the update itself.
	Emptied bool `json:"emptied,omitempty"`
}

type opRec struct {
	W     int    `json:"w"`
	Ref   int    `json:"ref"`
	Subj  int    `json:"subj"`
	Op    string `json:"op"`
	Call  int64  `json:"call"`
	Ret   int64  `json:"ret"`
	Class string `json:"res"` // ok | idxdel | err
	// Cancelled: the operation's context was cancelled right after its own index PUT was answered
	Cancelled bool   `json:"cancelled,omitempty"`
	Err       string `json:"err,omitempty"`
}

type planned struct {
	ref  *referrer
	op   string
	pre  func() bool        // optional: wait for a condition; false = skip the operation
	post func(class string) // optional: called with the outcome
}

type curOp struct {
	ref *referrer
	op  string
	// cancelAtPut: the operation's context is cancelled by the client-side
	// transport wrapper at the moment this goroutine (then the leader of a
	// batch) has received the answer to its PUT of a new referrers index, i.e.
	// exactly between the index push and the clean-up of the superseded index.
	cancel      context.CancelFunc
	cancelAtPut bool
	cancelled   atomic.Bool
}

// pingPong drives mutually inverse operations on one referrer from two
// goroutines: X pushes B, Y deletes B as soon as the index that lists B has
// been answered (while X's Push may still be cleaning up), X pushes B again
// once Y's Delete has returned, and so on. The index content of the subject
// keeps returning to an earlier digest.
type pingPong struct {
	tag      string
	dg       digest.Digest
	putCount atomic.Int64
	delDone  atomic.Int64
	aborted  atomic.Bool
}

func (pp *pingPong) wait(cond func() bool) bool {
	for n := 0; n < 50000; n++ {
		if pp.aborted.Load() {
			return false
		}
		if cond() {
			return true
		}
		time.Sleep(100 * time.Microsecond)
	}
	pp.aborted.Store(true)
	return false
}

// cancelClient is the HTTP client handed to the Repository.
type cancelClient struct {
	inner *http.Client
	h     *round
}

func (c *cancelClient) Do(req *http.Request) (*http.Response, error) {
	resp, err := c.inner.Do(req)
	const mp = "/v2/" + repoName + "/manifests/"
	if err == nil && req.Method == http.MethodPut && resp.StatusCode == http.StatusCreated && strings.HasPrefix(req.URL.Path, mp) {
		if tag := req.URL.Path[len(mp):]; refTagRe.MatchString(tag) {
			if wv, ok := c.h.byGid.Load(curGid()); ok {
				if cur := wv.(*wstate).cur.Load(); cur != nil && cur.cancelAtPut && cur.cancelled.CompareAndSwap(false, true) {
					c.h.mu.Lock()
					c.h.cancels = append(c.h.cancels, tag)
					if d := c.h.pendingOld[tag]; d != "" {
						// the DELETE of the index this PUT superseded will never be sent
						c.h.failedDel[d] = true
					}
					c.h.mu.Unlock()
					cur.cancel()
				}
			}
		}
	}
	return resp, err
}

type wstate struct {
	id   int
	ops  []planned
	gid  atomic.Int64
	cur  atomic.Pointer[curOp]
	done atomic.Bool
	recs []opRec
}

type reqInfo struct {
	ID     int64
	Method string
	Path   string
	Class  string // iGET iPUT iDEL rAPI m other
	Tag    string
	Phase  int32
	Arr    int64
	Body   []byte
	Status int
}

type round struct {
	reg  *regmodel.Registry
	srv  *httptest.Server
	repo *remote.Repository

	clock    atomic.Int64
	phase    atomic.Int32
	nextID   atomic.Int64
	totalReq atomic.Int64
	inflight atomic.Int64
	flipAt   atomic.Int64
	flipTo   bool
	flipped  atomic.Int64 // clock value of the flip, 0 = not yet
	// ping-race rounds: the first Referrers-API ping (sent by a Delete on a
	// repository whose capability is still unknown) is held until a push of a
	// manifest with a subject has been acknowledged; the registry's capability
	// is flipped just before the ping is answered, so the late answer
	// contradicts what the push detected.
	pingRace     bool
	pingHeld     atomic.Bool
	pushDone     atomic.Int64
	heldTillPush atomic.Bool
	pingSeen     chan struct{}
	readerRecs   [][2]int64 // call/return clock of every reader call (under mu)
	reqs         sync.Map   // id -> *reqInfo

	mu         sync.Mutex
	drng       *rand.Rand
	delayMax   map[string]time.Duration
	log        []*reqInfo
	ordinal    map[string]int
	faults     []*fault
	idxDigest  map[digest.Digest]string // digest of every index seen -> referrers tag
	failedDel  map[digest.Digest]bool
	traces     map[string][]string
	putOK      map[string]int
	dirtyPut   []string
	maxBatch   int
	merged2    int
	pending    int
	dumps      int
	emptying   int
	cancels    []string                 // referrers tags on which a leader was cancelled after its index PUT
	pendingOld map[string]digest.Digest // tag -> digest of the index the PUT being served supersedes
	pps        []*pingPong
	// storm rounds: some referrer-manifest PUTs that arrive while an index GET is
	// pending are answered only when that GET is being failed, so that their
	// callers reach the merge object while the error is handed out
	storm       bool
	getInflight atomic.Int64
	faultsLeft  atomic.Int64
	faultMu     sync.Mutex
	faultCh     chan struct{}

	subjects []*subject
	refs     []*referrer
	byDigest map[digest.Digest]*referrer
	workers  []*wstate
	byGid    sync.Map // gid -> *wstate
}

const zeroDigest = "sha256:0000000000000000000000000000000000000000000000000000000000000000"

var staggerMax = func() int {
	if v, err := strconv.Atoi(os.Getenv("VERIF_C14_STAGGER")); err == nil && v > 0 {
		return v
	}
	return 100
}()

var refTagRe = regexp.MustCompile(`^sha256-[0-9a-f]{64}$`)

// ---------------------------------------------------------------- HTTP front

type statusWriter struct {
	http.ResponseWriter
	status int
}

func (s *statusWriter) WriteHeader(code int) {
	if s.status == 0 {
		s.status = code
	}
	s.ResponseWriter.WriteHeader(code)
}

func (s *statusWriter) Write(b []byte) (int, error) {
	if s.status == 0 {
		s.status = 200
	}
	return s.ResponseWriter.Write(b)
}

func (s *statusWriter) Flush() {
	if f, ok := s.ResponseWriter.(http.Flusher); ok {
		f.Flush()
	}
}

func (s *statusWriter) Hijack() (net.Conn, *bufio.ReadWriter, error) {
	hj, ok := s.ResponseWriter.(http.Hijacker)
	if !ok {
		return nil, nil, errors.New("not a hijacker")
	}
	return hj.Hijack()
}

// ServeHTTP classifies the request, hands it to the model and logs the outcome
// under the round's own lock (the oracle never reads the model's log records,
// whose status field is written without synchronisation).
func (h *round) ServeHTTP(w http.ResponseWriter, r *http.Request) {
	h.inflight.Add(1)
	defer h.inflight.Add(-1)
	body, _ := io.ReadAll(r.Body)
	r.Body = io.NopCloser(bytes.NewReader(body))
	ri := &reqInfo{ID: h.nextID.Add(1), Method: r.Method, Path: r.URL.Path, Body: body, Phase: h.phase.Load(), Arr: h.clock.Add(1), Class: "other"}
	const mp = "/v2/" + repoName + "/manifests/"
	switch {
	case strings.HasPrefix(r.URL.Path, mp):
		ref := r.URL.Path[len(mp):]
		ri.Class = "m"
		if refTagRe.MatchString(ref) {
			ri.Tag = ref
			switch r.Method {
			case http.MethodGet, http.MethodHead:
				ri.Class = "iGET"
			case http.MethodPut:
				ri.Class = "iPUT"
				h.mu.Lock()
				h.idxDigest[digest.FromBytes(body)] = ref
				h.mu.Unlock()
			}
		} else if r.Method == http.MethodDelete {
			h.mu.Lock()
			if tag, ok := h.idxDigest[digest.Digest(ref)]; ok {
				ri.Class, ri.Tag = "iDEL", tag
			}
			h.mu.Unlock()
		}
	case strings.HasPrefix(r.URL.Path, "/v2/"+repoName+"/referrers/"):
		ri.Class = "rAPI"
	}
	id := strconv.FormatInt(ri.ID, 10)
	r.Header.Set("X-Verif-Id", id)
	h.reqs.Store(id, ri)
	sw := &statusWriter{ResponseWriter: w}
	defer func() {
		ri.Status = sw.status // 0: connection dropped
		h.reqs.Delete(id)
		h.mu.Lock()
		h.log = append(h.log, ri)
		if ri.Class == "iPUT" && ri.Status == http.StatusCreated {
			h.putOK[ri.Tag]++
			for _, pp := range h.pps {
				if pp.tag == ri.Tag && bytes.Contains(ri.Body, []byte(pp.dg.String())) {
					pp.putCount.Add(1)
				}
			}
		}
		h.mu.Unlock()
	}()
	h.reg.ServeHTTP(sw, r)
}

// settle waits until every handler has logged its request.
func (h *round) settle() {
	for n := 0; h.inflight.Load() != 0 && n < 200000; n++ {
		time.Sleep(50 * time.Microsecond)
	}
}

// before is installed as the model's Before knob: it runs outside the model's
// lock, so sleeping here widens the windows between the client's index GET,
// PUT and DELETE. It also injects the planned failures and observes batches.
func (h *round) before(rec *regmodel.Record) *regmodel.Response {
	v, ok := h.reqs.Load(rec.Header.Get("X-Verif-Id"))
	if !ok {
		return nil
	}
	ri := v.(*reqInfo)
	if h.pingRace && ri.Class == "rAPI" && strings.HasSuffix(ri.Path, zeroDigest) && ri.Phase == phaseRun && h.pingHeld.CompareAndSwap(false, true) {
		close(h.pingSeen)
		for n := 0; h.pushDone.Load() == 0 && n < 4000; n++ {
			time.Sleep(500 * time.Microsecond)
		}
		h.heldTillPush.Store(h.pushDone.Load() > 0)
		h.flip()
	}
	n := h.totalReq.Add(1)
	if at := h.flipAt.Load(); at > 0 && n >= at && h.flipped.Load() == 0 {
		h.flip()
	}
	if ri.Phase != phaseDetect && ri.Phase != phaseRun {
		return nil
	}
	if h.storm && ri.Phase == phaseRun {
		if ri.Class == "iGET" {
			h.getInflight.Add(1)
			defer h.getInflight.Add(-1)
		}
		if ri.Class == "m" && ri.Method == http.MethodPut && h.faultsLeft.Load() > 0 {
			h.mu.Lock()
			coin := h.drng.IntN(3) == 0
			stagger := time.Duration(h.drng.IntN(staggerMax)) * time.Microsecond
			h.mu.Unlock()
			if coin {
				h.faultMu.Lock()
				ch := h.faultCh
				h.faultMu.Unlock()
				select {
				case <-ch:
				case <-time.After(10 * time.Millisecond):
				}
				spin(stagger)
				return nil
			}
		}
	}
	h.mu.Lock()
	var d time.Duration
	if m := h.delayMax[ri.Class]; m > 0 {
		d = time.Duration(h.drng.Int64N(int64(m) + 1))
	} else if m := h.delayMax["*"]; m > 0 && ri.Class != "iGET" && ri.Class != "iPUT" && ri.Class != "iDEL" {
		d = time.Duration(h.drng.Int64N(int64(m) + 1))
	}
	h.mu.Unlock()
	if d > 0 {
		time.Sleep(d)
	}
	if ri.Phase != phaseRun {
		return nil
	}
	switch ri.Class {
	case "iGET", "iPUT", "iDEL":
	default:
		return nil
	}
	size := -1
	if ri.Class == "iPUT" {
		size = h.inspectPut(ri)
	}
	emptied := false
	if ri.Class == "iDEL" {
		target := digest.Digest(ri.Path[strings.LastIndex(ri.Path, "/")+1:])
		h.reg.WithLock(func() {
			if repo := h.reg.Repos[repoName]; repo != nil {
				emptied = repo.Tags[ri.Tag] == target
			}
		})
	}
	h.mu.Lock()
	h.ordinal[ri.Class]++
	ord := h.ordinal[ri.Class]
	ordE := -1
	if emptied {
		h.ordinal["iDELe"]++
		ordE = h.ordinal["iDELe"]
		h.emptying++
	}
	var hit *fault
	for _, f := range h.faults {
		if f.Fired {
			continue
		}
		if (f.Class == ri.Class && f.Ordinal == ord) || (f.Class == "iDELe" && f.Ordinal == ordE) {
			f.Fired, f.Tag, f.Emptied = true, ri.Tag, emptied
			hit = f
			break
		}
	}
	ev := map[string]string{"iGET": "G", "iPUT": "P", "iDEL": "D"}[ri.Class]
	if size >= 0 {
		ev += strconv.Itoa(size)
	}
	if hit != nil {
		ev += "!"
		if ri.Class == "iDEL" {
			h.failedDel[digest.Digest(ri.Path[strings.LastIndex(ri.Path, "/")+1:])] = true
		}
	}
	h.traces[ri.Tag] = append(h.traces[ri.Tag], ev)
	h.mu.Unlock()
	if hit == nil {
		return nil
	}
	if ri.Class == "iGET" && h.storm {
		// release the held manifest PUTs, then answer a moment later
		h.faultsLeft.Add(-1)
		h.faultMu.Lock()
		close(h.faultCh)
		h.faultCh = make(chan struct{})
		h.faultMu.Unlock()
		h.mu.Lock()
		extra := time.Duration(h.drng.IntN(80)) * time.Microsecond
		h.mu.Unlock()
		spin(extra)
	}
	switch hit.How {
	case "drop":
		return &regmodel.Response{Drop: true}
	case "503":
		return errResponse(503, "UNAVAILABLE")
	case "429":
		return errResponse(429, "TOOMANYREQUESTS")
	case "405":
		return errResponse(405, "UNSUPPORTED")
	default:
		return errResponse(500, "UNKNOWN")
	}
}

func errResponse(code int, errCode string) *regmodel.Response {
	b, _ := json.Marshal(map[string]any{"errors": []map[string]string{{"code": errCode, "message": "injected failure"}}})
	h := http.Header{}
	h.Set("Content-Type", "application/json")
	return &regmodel.Response{Status: code, Header: h, Body: b}
}

func (h *round) flip() {
	h.reg.WithLock(func() {
		if h.flipped.Load() == 0 {
			h.reg.Profile.ReferrersAPI = h.flipTo
			h.flipped.Store(h.clock.Add(1))
		}
	})
}

// indexEntries parses the manifests of an index document.
func indexEntries(b []byte) ([]ocispec.Descriptor, error) {
	var idx ocispec.Index
	if err := json.Unmarshal(b, &idx); err != nil {
		return nil, err
	}
	return idx.Manifests, nil
}

func isEmptyDesc(d ocispec.Descriptor) bool {
	return d.MediaType == "" && d.Digest == "" && d.Size == 0
}

// dirty reports duplicates or empty descriptors in an index.
func dirty(entries []ocispec.Descriptor) string {
	seen := map[digest.Digest]bool{}
	for _, e := range entries {
		if isEmptyDesc(e) {
			return "empty descriptor"
		}
		if seen[e.Digest] {
			return "duplicate " + e.Digest.String()
		}
		seen[e.Digest] = true
	}
	return ""
}

// inspectPut looks at an index PUT while it is being served: how many changes
// it merges relative to the index currently tagged (batch size), whether it is
// clean, and whether some goroutine is blocked in Merge.Do with a change for
// the same tag that this index does not contain — such a change can only sit
// in the merge object's pending queue (the PUT is sent after commit, and every
// committed change is applied before the PUT).
func (h *round) inspectPut(ri *reqInfo) int {
	newEntries, err := indexEntries(ri.Body)
	if err != nil {
		h.mu.Lock()
		h.dirtyPut = append(h.dirtyPut, "index PUT body does not parse: "+err.Error())
		h.mu.Unlock()
		return 0
	}
	var oldBytes []byte
	var oldDigest digest.Digest
	h.reg.WithLock(func() {
		repo := h.reg.Repos[repoName]
		if repo == nil {
			return
		}
		if d, ok := repo.Tags[ri.Tag]; ok {
			if m, ok := repo.Manifests[d]; ok {
				oldBytes, oldDigest = m.Bytes, d
			}
		}
	})
	h.mu.Lock()
	h.pendingOld[ri.Tag] = oldDigest
	h.mu.Unlock()
	oldSet := map[digest.Digest]bool{}
	if oldBytes != nil {
		old, _ := indexEntries(oldBytes)
		for _, e := range old {
			if !isEmptyDesc(e) {
				oldSet[e.Digest] = true
			}
		}
	}
	newSet := map[digest.Digest]bool{}
	for _, e := range newEntries {
		newSet[e.Digest] = true
	}
	size := 0
	for d := range newSet {
		if !oldSet[d] {
			size++
		}
	}
	for d := range oldSet {
		if !newSet[d] {
			size++
		}
	}
	why := dirty(newEntries)

	// goroutines blocked in Merge.Do
	pend := 0
	buf := make([]byte, 1<<20)
	buf = buf[:runtime.Stack(buf, true)]
	for _, blk := range strings.Split(string(buf), "\n\n") {
		nl := strings.IndexByte(blk, '\n')
		if nl < 0 || !strings.HasPrefix(blk, "goroutine ") {
			continue
		}
		head := blk[:nl]
		if !strings.Contains(head, "[chan receive") {
			continue
		}
		rest := blk[nl+1:]
		if e := strings.IndexByte(rest, '\n'); e >= 0 {
			rest = rest[:e]
		}
		if !strings.Contains(rest, "syncutil.(*Merge") || !strings.Contains(rest, ").Do(") {
			continue
		}
		var gid int64
		fmt.Sscanf(head, "goroutine %d ", &gid)
		wv, ok := h.byGid.Load(gid)
		if !ok {
			continue
		}
		cur := wv.(*wstate).cur.Load()
		if cur == nil || cur.ref.Subject < 0 || h.subjects[cur.ref.Subject].Tag != ri.Tag {
			continue
		}
		in := newSet[cur.ref.Desc.Digest]
		if (cur.op == "push" && !in) || (cur.op == "delete" && in) {
			pend++
		}
	}
	h.mu.Lock()
	h.dumps++
	if size > h.maxBatch {
		h.maxBatch = size
	}
	if size >= 2 {
		h.merged2++
	}
	h.pending += pend
	if why != "" {
		h.dirtyPut = append(h.dirtyPut, fmt.Sprintf("index PUT for %s carries %s", ri.Tag, why))
	}
	h.mu.Unlock()
	return size
}

// ---------------------------------------------------------------- generation

func normDesc(d ocispec.Descriptor) string {
	ann := d.Annotations
	if len(ann) == 0 {
		ann = nil
	}
	a, _ := json.Marshal(ann) // maps marshal with sorted keys
	extra := ""
	if len(d.URLs) > 0 || len(d.Data) > 0 || d.Platform != nil {
		extra = "|extra-fields"
	}
	return fmt.Sprintf("%s|%s|%d|%s|%s%s", d.MediaType, d.Digest, d.Size, d.ArtifactType, a, extra)
}

var kinds = []string{"image+type", "image+config", "index", "artifact", "image-noann", "index-notype"}

func buildReferrer(round, id int, kind string, subj *ocispec.Descriptor, spell int) *referrer {
	uniq := fmt.Sprintf("r%d-%d", round, id)
	ann := map[string]string{"verif.id": uniq, "a.b/c": "x y"}
	var doc map[string]any
	var mt, at string
	empty := map[string]any{"mediaType": "application/vnd.oci.empty.v1+json", "digest": "sha256:44136fa355b3678a1146ad16f7e8649e94fb4fc21fe77e8310c060f61caaff8a", "size": 2}
	switch kind {
	case "image+type":
		mt, at = ocispec.MediaTypeImageManifest, "application/vnd.verif.sig.v"+strconv.Itoa(id%3)
		doc = map[string]any{"schemaVersion": 2, "mediaType": mt, "artifactType": at, "config": empty, "layers": []any{}, "annotations": ann}
	case "image+config":
		mt, at = ocispec.MediaTypeImageManifest, "application/vnd.verif.config.v"+strconv.Itoa(id%3)+"+json"
		cfg := map[string]any{"mediaType": at, "digest": empty["digest"], "size": 2}
		doc = map[string]any{"schemaVersion": 2, "mediaType": mt, "config": cfg, "layers": []any{}, "annotations": ann}
	case "index":
		mt, at = ocispec.MediaTypeImageIndex, "application/vnd.verif.bundle"
		doc = map[string]any{"schemaVersion": 2, "mediaType": mt, "artifactType": at, "manifests": []any{}, "annotations": ann}
	case "index-notype":
		mt, at = ocispec.MediaTypeImageIndex, ""
		doc = map[string]any{"schemaVersion": 2, "mediaType": mt, "manifests": []any{}, "annotations": ann}
	case "artifact":
		mt, at = mediaTypeArtifact, "application/vnd.verif.sbom"
		doc = map[string]any{"mediaType": mt, "artifactType": at, "blobs": []any{}, "annotations": ann}
	case "image-noann":
		mt, at = ocispec.MediaTypeImageManifest, "application/vnd.verif.u."+uniq
		doc = map[string]any{"schemaVersion": 2, "mediaType": mt, "artifactType": at, "config": empty, "layers": []any{}}
		ann = nil
	}
	if subj != nil {
		// only the digest identifies the subject: the other fields of the subject
		// descriptor may be spelled differently from referrer to referrer
		sd := map[string]any{"mediaType": subj.MediaType, "digest": subj.Digest.String(), "size": subj.Size}
		if spell&1 != 0 {
			sd["mediaType"] = map[string]string{
				ocispec.MediaTypeImageManifest: "application/vnd.docker.distribution.manifest.v2+json",
				ocispec.MediaTypeImageIndex:    "application/vnd.docker.distribution.manifest.list.v2+json",
			}[subj.MediaType]
		}
		if spell&2 != 0 {
			sd["annotations"] = map[string]string{"verif.subject.note": "spelled by " + uniq}
		}
		if spell&4 != 0 {
			sd["urls"] = []string{"https://mirror.invalid/" + subj.Digest.Encoded()}
		}
		doc["subject"] = sd
	} else {
		// a manifest without subject: no index involved
		doc["annotations"] = map[string]string{"verif.plain": uniq}
		ann = map[string]string{"verif.plain": uniq}
	}
	b, _ := json.Marshal(doc)
	desc := ocispec.Descriptor{MediaType: mt, Digest: digest.FromBytes(b), Size: int64(len(b))}
	want := desc
	want.ArtifactType = at
	want.Annotations = ann
	return &referrer{ID: id, Kind: kind, Desc: desc, Bytes: b, Want: normDesc(want), Digest: desc.Digest.String()[7:19]}
}

// ---------------------------------------------------------------- the round

func runCase(phase string, i int) worker.Result {
	seed := evidence.New(prop, "exploration").Seed
	rng := evidence.RandFor(seed, "c14-"+phase, i)
	var res worker.Result

	mode := "plain"
	switch i % 10 {
	case 3:
		mode = "flip-to-api"
	case 7:
		mode = "flip-to-tags"
	case 5:
		mode = "ping-race-to-api"
	case 9:
		mode = "ping-race-to-tags"
	}
	// storm: one subject, many goroutines, the first index GETs all fail while operations keep arriving
	storm := i%10 == 1
	pingRace := strings.HasPrefix(mode, "ping-race")
	apiFirst := mode == "flip-to-tags" || mode == "ping-race-to-tags"
	skipGC := rng.IntN(3) == 0
	capInit := []string{"set", "auto"}[rng.IntN(2)]
	nSubj := 1 + rng.IntN(3)
	nWorkers := 4 + rng.IntN(29)
	if rng.IntN(3) == 0 {
		nWorkers = 4 + rng.IntN(8)
	}
	nReaders := 0
	if rng.IntN(4) == 0 {
		nReaders = 1 + rng.IntN(2)
	}
	if storm {
		nSubj, nWorkers, nReaders = 1, 24+rng.IntN(9), 0
	}

	h := &round{
		drng: rand.New(rand.NewPCG(rng.Uint64(), rng.Uint64())), delayMax: map[string]time.Duration{},
		ordinal: map[string]int{}, idxDigest: map[digest.Digest]string{}, failedDel: map[digest.Digest]bool{},
		traces: map[string][]string{}, putOK: map[string]int{}, byDigest: map[digest.Digest]*referrer{}, pendingOld: map[string]digest.Digest{},
	}
	steps := []time.Duration{0, 300 * time.Microsecond, time.Millisecond, 3 * time.Millisecond, 6 * time.Millisecond}
	for _, c := range []string{"iGET", "iPUT", "iDEL"} {
		h.delayMax[c] = steps[rng.IntN(len(steps))]
	}
	h.delayMax["*"] = steps[rng.IntN(3)]
	if storm {
		h.delayMax["iGET"], h.delayMax["*"] = steps[3+rng.IntN(2)], time.Millisecond
	}
	// in a quarter of the tag-schema rounds a quarter of the operations get cancelled right after their own index PUT
	cancelShare := 0
	if mode == "plain" && !storm && rng.IntN(4) == 0 {
		cancelShare = 4
	}

	h.pingRace = pingRace
	h.storm = storm
	h.faultCh = make(chan struct{})
	h.pingSeen = make(chan struct{})
	profile := regmodel.Profile{ReferrersAPI: apiFirst, DigestHeader: true, Ranges: true, HonourN: true}
	h.reg = regmodel.New(profile)
	h.reg.KeepHeaders = true
	h.reg.Before = h.before
	h.flipTo = !profile.ReferrersAPI

	// subjects
	for s := 0; s < nSubj; s++ {
		doc := map[string]any{"schemaVersion": 2, "mediaType": ocispec.MediaTypeImageManifest,
			"config": map[string]any{"mediaType": "application/vnd.oci.image.config.v1+json", "digest": "sha256:44136fa355b3678a1146ad16f7e8649e94fb4fc21fe77e8310c060f61caaff8a", "size": 2},
			"layers": []any{}, "annotations": map[string]string{"verif.subject": fmt.Sprintf("%s-%d-%d", phase, i, s)}}
		mt := ocispec.MediaTypeImageManifest
		if rng.IntN(4) == 0 {
			mt = ocispec.MediaTypeImageIndex
			doc = map[string]any{"schemaVersion": 2, "mediaType": mt, "manifests": []any{}, "annotations": doc["annotations"]}
		}
		b, _ := json.Marshal(doc)
		sd := ocispec.Descriptor{MediaType: mt, Digest: digest.FromBytes(b), Size: int64(len(b))}
		sub := &subject{N: s, Desc: sd, Bytes: b, Stored: rng.IntN(3) > 0, Tag: "sha256-" + sd.Digest.Encoded(), Drain: rng.IntN(3) == 0}
		if sub.Stored {
			h.reg.PutManifest(repoName, mt, b)
		}
		h.subjects = append(h.subjects, sub)
	}

	// referrers and scripts
	nextID := 0
	newRef := func(subj int) *referrer {
		var sd *ocispec.Descriptor
		if subj >= 0 {
			sd = &h.subjects[subj].Desc
		}
		spell := 0
		if rng.IntN(3) == 0 {
			spell = 1 + rng.IntN(7)
		}
		r := buildReferrer(i, nextID, kinds[rng.IntN(len(kinds))], sd, spell)
		if spell != 0 && subj >= 0 {
			r.Spell = spell
		}
		nextID++
		r.Subject = subj
		r.Via = rng.IntN(4)
		r.PushDesc = r.Desc
		if rng.IntN(3) == 0 {
			switch v := rng.IntN(5); v {
			case 0:
				r.Enriched = "ref.name"
				r.PushDesc.Annotations = map[string]string{"org.opencontainers.image.ref.name": "v" + strconv.Itoa(r.ID)}
			case 1:
				r.Enriched = "other-artifactType"
				r.PushDesc.ArtifactType = "application/vnd.verif.callers.own"
			case 2:
				r.Enriched = "both"
				r.PushDesc.ArtifactType = "application/vnd.verif.callers.own"
				r.PushDesc.Annotations = map[string]string{"org.opencontainers.image.ref.name": "v" + strconv.Itoa(r.ID), "verif.id": "callers"}
			case 3:
				r.Enriched = "empty-annotations"
				r.PushDesc.Annotations = map[string]string{}
			case 4:
				r.Enriched = "same-as-manifest"
				var e ocispec.Descriptor
				json.Unmarshal(descJSON(r), &e)
				r.PushDesc.ArtifactType, r.PushDesc.Annotations = e.ArtifactType, e.Annotations
			}
		}
		h.refs = append(h.refs, r)
		h.byDigest[r.Desc.Digest] = r
		return r
	}
	for w := 0; w < nWorkers; w++ {
		h.workers = append(h.workers, &wstate{id: w})
	}
	// pre-existing referrers and indexes
	for _, sub := range h.subjects {
		nPre := []int{0, 0, 1, 2, 4}[rng.IntN(5)]
		sub.Dirty = []string{"", "clean", "clean", "dup", "empty", "both"}[rng.IntN(6)]
		if pingRace && sub.N == 0 {
			// the repository already holds referrers of subject 0; two of them are
			// deleted as the very first operation of workers 0 and 1
			if sub.Dirty == "" {
				sub.Dirty = "clean"
			}
			if nPre < 2 {
				nPre = 2
			}
			sub.Drain = false
		}
		if !pingRace && !apiFirst && sub.N >= 1 && rng.IntN(2) == 0 {
			sub.Exact = 1 + rng.IntN(3)
			sub.Dirty, sub.Drain = "dup", false
			nPre = 1 + rng.IntN(2)
			if sub.Exact >= 2 {
				// the Exact pushes should meet in one batch: a long index GET keeps the window open
				h.delayMax["iGET"], h.delayMax["*"] = 6*time.Millisecond, 0
			}
		}
		if mode != "flip-to-tags" && !pingRace && !storm && !skipGC && sub.N >= 1 && sub.Exact == 0 && rng.IntN(2) == 0 {
			sub.PingPong = true
			sub.Dirty, sub.Drain = "clean", false
			nPre = 1 + rng.IntN(2)
			// the clean-up DELETE is slow, everything else fast
			h.delayMax["iDEL"], h.delayMax["iGET"], h.delayMax["iPUT"], h.delayMax["*"] = 6*time.Millisecond, 300*time.Microsecond, 300*time.Microsecond, 0
		}
		if !apiFirst && !pingRace && !storm && sub.N >= 1 && sub.Exact == 0 && !sub.PingPong && rng.IntN(3) == 0 {
			sub.Twin = 2 + rng.IntN(3)
			sub.Dirty, sub.Drain, nPre = []string{"", "clean"}[rng.IntN(2)], false, 0
			// the identical pushes should meet in one batch: the first index GET is slow
			h.delayMax["iGET"], h.delayMax["*"] = 6*time.Millisecond, 0
		}
		if sub.Dirty == "" {
			continue
		}
		var entries []ocispec.Descriptor
		for k := 0; k < nPre; k++ {
			r := newRef(sub.N)
			r.Pre = true
			r.Owner = rng.IntN(nWorkers)
			r.Script = [][]string{{}, {}, {"delete"}, {"delete"}, {"delete", "push"}}[rng.IntN(5)]
			if sub.Drain {
				r.Script = []string{"delete"}
			}
			if pingRace && sub.N == 0 && k < 2 {
				r.Script, r.Owner, r.First = []string{"delete"}, k, true
			}
			if sub.Exact > 0 || sub.PingPong {
				r.Script = []string{}
			}
			h.reg.PutManifest(repoName, r.Desc.MediaType, r.Bytes)
			var e ocispec.Descriptor
			json.Unmarshal(descJSON(r), &e)
			entries = append(entries, e)
			if sub.Exact == 0 && (sub.Dirty == "dup" || sub.Dirty == "both") && rng.IntN(2) == 0 {
				entries = append(entries, e)
			}
		}
		if sub.Exact > 0 {
			for k := 0; k < sub.Exact; k++ {
				e := entries[rng.IntN(nPre)]
				at := rng.IntN(len(entries) + 1)
				entries = append(entries[:at:at], append([]ocispec.Descriptor{e}, entries[at:]...)...)
			}
		} else if sub.Dirty == "dup" || sub.Dirty == "both" {
			if len(entries) > 0 {
				entries = append(entries, entries[0])
			}
		}
		if sub.Dirty == "empty" || sub.Dirty == "both" {
			at := rng.IntN(len(entries) + 1)
			entries = append(entries[:at:at], append([]ocispec.Descriptor{{}}, entries[at:]...)...)
		}
		if entries == nil {
			entries = []ocispec.Descriptor{}
		}
		idx := ocispec.Index{MediaType: ocispec.MediaTypeImageIndex, Manifests: entries, Annotations: map[string]string{"verif.pre": sub.Tag}}
		idx.SchemaVersion = 2
		b, _ := json.Marshal(idx)
		d := h.reg.PutManifest(repoName, ocispec.MediaTypeImageIndex, b, sub.Tag)
		h.idxDigest[d] = sub.Tag
	}
	scripts := [][]string{{"push"}, {"push"}, {"push", "delete"}, {"push", "delete"}, {"push", "delete", "push"}}
	var open []int // subjects that take random operations
	var seqRefs []*referrer
	for _, sub := range h.subjects {
		if sub.PingPong || sub.Twin > 0 {
			continue
		}
		if sub.Exact == 0 {
			open = append(open, sub.N)
			continue
		}
		if sub.Exact == 1 && mode == "plain" && rng.IntN(2) == 0 {
			// the single new referrer is pushed sequentially before the concurrent phase
			r := newRef(sub.N)
			r.Owner, r.Script = -1, []string{"push"}
			seqRefs = append(seqRefs, r)
			continue
		}
		perm := rng.Perm(nWorkers)
		for k := 0; k < sub.Exact; k++ {
			r := newRef(sub.N)
			r.Owner, r.First, r.Script = perm[k], true, []string{"push"}
		}
	}
	for _, w := range h.workers {
		nRefs := 1 + rng.IntN(4)
		if storm {
			nRefs = 3 + rng.IntN(2)
		}
		for k, n := 0, nRefs; k < n; k++ {
			subj := open[rng.IntN(len(open))]
			if rng.IntN(12) == 0 {
				subj = -1
			}
			r := newRef(subj)
			r.Owner = w.id
			r.Script = scripts[rng.IntN(len(scripts))]
			if subj < 0 {
				r.Script = []string{"push"}
			} else if h.subjects[subj].Drain {
				r.Script = []string{"push", "delete"}
			}
		}
	}
	if pingRace {
		// worker 2 starts with a push of a referrer: the operation that detects the capability
		r := newRef(rng.IntN(nSubj))
		r.Owner, r.First, r.Script = 2, true, []string{"push"}
	}
	// per worker: random interleaving of its referrers' scripts
	for _, w := range h.workers {
		var mine []*referrer
		left := 0
		for _, r := range h.refs {
			if r.Owner == w.id && len(r.Script) > 0 {
				mine = append(mine, r)
				left += len(r.Script)
			}
		}
		pos := make([]int, len(mine))
		for left > 0 {
			k := rng.IntN(len(mine))
			if pos[k] >= len(mine[k].Script) {
				continue
			}
			w.ops = append(w.ops, planned{ref: mine[k], op: mine[k].Script[pos[k]]})
			pos[k]++
			left--
		}
		for k, p := range w.ops {
			if p.ref.First && p.op == p.ref.Script[0] {
				copy(w.ops[1:k+1], w.ops[:k])
				w.ops[0] = p
				break
			}
		}
	}
	// the same referrer pushed by several goroutines at once, first thing
	twins := map[int]bool{}
	for _, sub := range h.subjects {
		if sub.Twin == 0 {
			continue
		}
		t := newRef(sub.N)
		t.Owner = -1
		twins[t.ID] = true
		perm := rng.Perm(nWorkers)
		for k := 0; k < sub.Twin; k++ {
			w := h.workers[perm[k]]
			w.ops = append([]planned{{ref: t, op: "push", pre: func() bool { return true }}}, w.ops...)
		}
	}
	// ping-pong operations come first for their two goroutines
	for _, sub := range h.subjects {
		if !sub.PingPong {
			continue
		}
		b := newRef(sub.N)
		b.Owner = -1
		pp := &pingPong{tag: sub.Tag, dg: b.Desc.Digest}
		h.pps = append(h.pps, pp)
		perm := rng.Perm(nWorkers)
		x, y := h.workers[perm[0]], h.workers[perm[1]]
		var xo, yo []planned
		for it, n := 0, 3+rng.IntN(4); it < n; it++ {
			it := int64(it)
			xo = append(xo, planned{ref: b, op: "push",
				pre: func() bool { return pp.wait(func() bool { return pp.delDone.Load() >= it }) },
				post: func(class string) {
					if class == "err" {
						pp.aborted.Store(true)
					}
				}})
			yo = append(yo, planned{ref: b, op: "delete",
				pre: func() bool { return pp.wait(func() bool { return pp.putCount.Load() >= it+1 }) },
				post: func(class string) {
					if class != "ok" {
						pp.aborted.Store(true)
					}
					pp.delDone.Add(1)
				}})
		}
		x.ops = append(xo, x.ops...)
		y.ops = append(yo, y.ops...)
	}
	// faults
	if storm {
		for k, n := 1, 6+rng.IntN(6); k <= n; k++ {
			h.faults = append(h.faults, &fault{Class: "iGET", Ordinal: k, How: []string{"500", "503", "429"}[rng.IntN(3)]})
			h.faultsLeft.Add(1)
		}
	} else if !apiFirst && !pingRace && rng.IntN(2) == 0 {
		for k, n := 0, 1+rng.IntN(3); k < n; k++ {
			c := []string{"iGET", "iPUT", "iDEL", "iDEL"}[rng.IntN(4)]
			hows := []string{"500", "503", "drop", "429"}
			if c == "iDEL" {
				hows = append(hows, "405", "405")
			}
			h.faults = append(h.faults, &fault{Class: c, Ordinal: 1 + rng.IntN(8), How: hows[rng.IntN(len(hows))]})
		}
		if rng.IntN(2) == 0 {
			// fail the DELETE of an index that is removed because its referrers list became empty
			h.faults = append(h.faults, &fault{Class: "iDELe", Ordinal: 1 + rng.IntN(2), How: []string{"500", "405", "drop"}[rng.IntN(3)]})
		}
	}

	h.srv = httptest.NewServer(h)
	defer h.srv.Close()
	repo, err := stores.RepoFor(h.srv, repoName)
	if err != nil {
		res.Violate("harness:repo", err.Error(), nil)
		return res
	}
	h.repo = repo
	repo.SkipReferrersGC = skipGC
	if hc, ok := repo.Client.(*http.Client); ok {
		repo.Client = &cancelClient{inner: hc, h: h}
		defer hc.CloseIdleConnections()
	}
	witness := func(extra map[string]any) map[string]any {
		h.mu.Lock()
		defer h.mu.Unlock()
		var ops []opRec
		for _, w := range h.workers {
			if w.done.Load() {
				ops = append(ops, w.recs...)
			}
		}
		sort.Slice(ops, func(a, b int) bool { return ops[a].Call < ops[b].Call })
		if len(ops) > 150 {
			ops = ops[:150]
		}
		subs := []map[string]any{}
		for _, s := range h.subjects {
			subs = append(subs, map[string]any{"n": s.N, "tag": s.Tag[:19], "stored": s.Stored, "pre_index": s.Dirty, "drain": s.Drain, "exact_dups": s.Exact, "twin_pushers": s.Twin, "trace": strings.Join(h.traces[s.Tag], " ")})
		}
		wit := map[string]any{"mode": mode, "skip_gc": skipGC, "cap_init": capInit, "workers": nWorkers, "readers": nReaders,
			"subjects": subs, "faults": h.faults, "referrers": h.refs, "ops": ops, "flipped_at_clock": h.flipped.Load()}
		for k, v := range extra {
			wit[k] = v
		}
		return wit
	}

	// ---- detection step (sequential)
	h.phase.Store(phaseDetect)
	detect := ""
	var detectRef *referrer
	detectAcked := false
	if mode == "plain" {
		if capInit == "set" {
			detect = "set"
			if err := repo.SetReferrersCapability(false); err != nil {
				res.Violate("capability:first-set-refused", "SetReferrersCapability(false) on a fresh repository: "+err.Error(), nil)
			}
		}
	} else if !pingRace {
		detect = []string{"set", "push", "referrers", "delete-pre"}[rng.IntN(4)]
		if detect == "delete-pre" {
			for _, r := range h.refs {
				if r.Pre && len(r.Script) == 0 {
					detectRef = r
					break
				}
			}
			if detectRef == nil {
				detect = "push"
			}
		}
		switch detect {
		case "set":
			if err := repo.SetReferrersCapability(profile.ReferrersAPI); err != nil {
				res.Violate("capability:first-set-refused", "SetReferrersCapability on a fresh repository: "+err.Error(), nil)
			}
		case "push":
			detectRef = newRef(0)
			detectRef.Owner = -1
			detectRef.Script = []string{"push"}
			if err := repo.Push(ctx, detectRef.Desc, bytes.NewReader(detectRef.Bytes)); err != nil {
				res.Violate("unexplained-error", "sequential push on a healthy registry failed: "+err.Error(), witness(nil))
				return res
			}
			detectAcked = true
		case "referrers":
			if err := repo.Referrers(ctx, h.subjects[0].Desc, "", func([]ocispec.Descriptor) error { return nil }); err != nil {
				res.Violate("listing-failed", "sequential Referrers on a healthy registry failed: "+err.Error(), witness(nil))
				return res
			}
		case "delete-pre":
			if err := repo.Delete(ctx, detectRef.Desc); err != nil {
				res.Violate("unexplained-error", "sequential delete on a healthy registry failed: "+err.Error(), witness(nil))
				return res
			}
			detectAcked = true
		}
		h.flipAt.Store(h.totalReq.Load() + 1 + int64(rng.IntN(60)))
	}
	seqAcked := map[int]bool{}
	for _, r := range seqRefs {
		if err := pushVia(ctx, repo, r); err != nil {
			res.Violate("unexplained-error", "sequential push on a healthy registry failed: "+err.Error(), witness(nil))
			return res
		}
		seqAcked[r.ID] = true
	}
	detectClock := h.clock.Add(1)

	// ---- concurrent phase
	hook0 := hookHits.Load()
	h.phase.Store(phaseRun)
	var wg sync.WaitGroup
	start := make(chan struct{})
	var stopReaders atomic.Bool
	var readerCalls atomic.Int64
	for _, w := range h.workers {
		wg.Add(1)
		wrng := rand.New(rand.NewPCG(rng.Uint64(), uint64(w.id)))
		go func(w *wstate) {
			defer wg.Done()
			g := curGid()
			w.gid.Store(g)
			h.byGid.Store(g, w)
			<-start
			if pingRace && w.id >= 2 {
				// let the Deletes of workers 0 and 1 send their ping while the capability is unknown
				select {
				case <-h.pingSeen:
				case <-time.After(500 * time.Millisecond):
				}
			}
			for _, p := range w.ops {
				if p.pre != nil && !p.pre() {
					continue
				}
				if p.pre == nil && wrng.IntN(3) == 0 {
					time.Sleep(time.Duration(wrng.IntN(400)) * time.Microsecond)
				}
				opCtx, cancel := context.WithCancel(ctx)
				c := &curOp{ref: p.ref, op: p.op, cancel: cancel}
				if cancelShare > 0 && p.pre == nil && wrng.IntN(cancelShare) == 0 {
					c.cancelAtPut = true
				}
				w.cur.Store(c)
				rec := opRec{W: w.id, Ref: p.ref.ID, Subj: p.ref.Subject, Op: p.op, Call: h.clock.Add(1)}
				var err error
				if p.op == "push" {
					err = pushVia(opCtx, repo, p.ref)
				} else {
					err = deleteVia(opCtx, repo, p.ref)
				}
				rec.Ret = h.clock.Add(1)
				w.cur.Store(nil)
				cancel()
				rec.Cancelled = c.cancelled.Load()
				rec.Class, rec.Err = classify(err)
				if p.post != nil {
					p.post(rec.Class)
				}
				if p.op == "push" && p.ref.Subject >= 0 && err == nil {
					h.pushDone.Add(1)
				}
				w.recs = append(w.recs, rec)
			}
			w.done.Store(true)
		}(w)
	}
	var rwg sync.WaitGroup
	for k := 0; k < nReaders; k++ {
		rwg.Add(1)
		rrng := rand.New(rand.NewPCG(rng.Uint64(), uint64(k)))
		go func() {
			defer rwg.Done()
			<-start
			if pingRace {
				select {
				case <-h.pingSeen:
				case <-time.After(500 * time.Millisecond):
				}
			}
			for n := 0; n < 25 && !stopReaders.Load(); n++ {
				time.Sleep(time.Duration(rrng.IntN(1500)) * time.Microsecond)
				s := h.subjects[rrng.IntN(len(h.subjects))]
				c0 := h.clock.Add(1)
				if rrng.IntN(2) == 0 {
					repo.Referrers(ctx, s.Desc, "", func([]ocispec.Descriptor) error { return nil })
				} else {
					repo.Predecessors(ctx, s.Desc)
				}
				readerCalls.Add(1)
				c1 := h.clock.Add(1)
				h.mu.Lock()
				h.readerRecs = append(h.readerRecs, [2]int64{c0, c1})
				h.mu.Unlock()
			}
		}()
	}
	close(start)
	finished := make(chan struct{})
	go func() { wg.Wait(); close(finished) }()
	if stuck := h.awaitWorkers(finished); stuck != "" {
		res.Violate("merge-deadlock", stuck, witness(nil))
		res.Restart = true
		res.Key = "deadlock"
		return res
	}
	stopReaders.Store(true)
	rwg.Wait()
	if mode != "plain" && h.flipped.Load() == 0 {
		h.flip()
	}
	h.settle()
	h.phase.Store(phaseQuiescent)
	quiescentClock := h.clock.Add(1)
	hookN := hookHits.Load() - hook0

	// ---- final state of every referrer by its acknowledged operations
	state := map[int]string{} // present | absent | unlisted | uncertain
	for _, r := range h.refs {
		if r.Pre {
			state[r.ID] = "present"
		} else {
			state[r.ID] = "absent"
		}
	}
	for id := range seqAcked {
		state[id] = "present"
	}
	if detectRef != nil && detectAcked {
		state[detectRef.ID] = map[string]string{"push": "present", "delete-pre": "absent"}[detect]
	}
	var all []opRec
	for _, w := range h.workers {
		all = append(all, w.recs...)
	}
	sort.Slice(all, func(a, b int) bool { return all[a].Call < all[b].Call })
	nOK, nIdxDel, nErr := 0, 0, 0
	h.mu.Lock()
	faultsNow := append([]*fault{}, h.faults...)
	h.mu.Unlock()
	// explained: an index-delete error needs a failed DELETE of a superseded index (a new index was
	// in place); any other error needs a failed index GET or PUT, or a failed DELETE that was itself
	// the update (emptied referrers list, nothing pushed).
	h.mu.Lock()
	cancelsNow := append([]string{}, h.cancels...)
	h.mu.Unlock()
	explained := func(tag, class string) bool {
		if class == "idxdel" {
			// a leader cancelled after its index PUT cannot send the clean-up DELETE
			for _, t := range cancelsNow {
				if t == tag {
					return true
				}
			}
		}
		for _, f := range faultsNow {
			if !f.Fired || f.Tag != tag {
				continue
			}
			isDel := f.Class == "iDEL" || f.Class == "iDELe"
			if class == "idxdel" && isDel && !f.Emptied {
				return true
			}
			if class == "err" && (f.Class == "iGET" || f.Class == "iPUT" || (isDel && f.Emptied)) {
				return true
			}
		}
		return false
	}
	for _, o := range all { // per referrer the operations are sequential (one owner), so call order is program order
		switch {
		case o.Class == "ok" && o.Op == "push":
			state[o.Ref] = "present"
		case o.Class == "ok":
			state[o.Ref] = "absent"
		case o.Class == "idxdel" && o.Op == "push":
			state[o.Ref] = "present"
		case o.Class == "idxdel":
			state[o.Ref] = "unlisted"
		default:
			state[o.Ref] = "uncertain"
		}
		switch o.Class {
		case "ok":
			nOK++
			continue
		case "idxdel":
			nIdxDel++
		default:
			nErr++
		}
		if o.Cancelled && o.Class == "err" {
			if o.Op == "push" {
				// nothing but the clean-up of the superseded index was left to do when the context was cancelled
				res.Violate("cancel-after-index-push-reported-as-failed-update", fmt.Sprintf("push of referrer %d was cancelled right after its PUT of the new referrers index had been answered (the update had taken effect), yet it returned a plain error instead of nil or a referrers-index-delete error: %s", o.Ref, o.Err), witness(nil))
				break
			}
			continue // a cancelled Delete cannot delete its manifest any more: not acknowledged
		}
		// every error must be explained by an injected failure on the same referrers tag
		tag := ""
		if o.Subj >= 0 {
			tag = h.subjects[o.Subj].Tag
		}
		if o.Class == "idxdel" && !explained(tag, "idxdel") {
			key, what := "unexplained-index-delete-error", fmt.Sprintf("%s of referrer %d returned a referrers-index-delete error although no DELETE of a superseded index for %.19s was made to fail: %s", o.Op, o.Ref, tag, o.Err)
			for _, f := range faultsNow {
				if f.Fired && f.Tag == tag && f.Emptied {
					// the only failed DELETE removed the index because the list had become empty:
					// nothing was pushed, the failed DELETE was the update itself
					key = "index-delete-error-before-update:emptied-index"
					what = fmt.Sprintf("%s of referrer %d returned a referrers-index-delete error, but the failed DELETE was the removal of the (emptied) index itself: no new index had been pushed, the update did not take effect: %s", o.Op, o.Ref, o.Err)
				}
			}
			res.Violate(key, what, witness(nil))
			break
		}
		if o.Class == "err" && !explained(tag, "err") {
			res.Violate("unexplained-error", fmt.Sprintf("%s of referrer %d failed although no index GET/PUT (or index DELETE that was the update itself) for %.19s was made to fail: %s", o.Op, o.Ref, tag, o.Err), witness(nil))
			break
		}
	}

	// concurrent identical pushes only add: one acknowledgement is enough for "must be listed"
	for _, o := range all {
		if twins[o.Ref] && o.Op == "push" && (o.Class == "ok" || o.Class == "idxdel") {
			state[o.Ref] = "present"
		}
	}
	// every failed index DELETE must have been reported to a caller on that tag: as a
	// referrers-index-delete error when a new index was in place, as some error otherwise
	if len(res.Viol) == 0 {
		for _, f := range faultsNow {
			if !f.Fired || (f.Class != "iDEL" && f.Class != "iDELe") {
				continue
			}
			reported := false
			for _, o := range all {
				if o.Subj >= 0 && h.subjects[o.Subj].Tag == f.Tag && (o.Class == "idxdel" || (f.Emptied && o.Class == "err")) {
					reported = true
					break
				}
			}
			if !reported {
				res.Violate("index-delete-failure-not-reported", fmt.Sprintf("the DELETE of a referrers index of %.19s failed (injected %s) but no push or delete on that subject returned a referrers-index-delete error", f.Tag, f.How), witness(nil))
				break
			}
		}
	}

	// ---- request trace: protocol after detection
	h.mu.Lock()
	logCopy := append([]*reqInfo{}, h.log...)
	rrecs := append([][2]int64{}, h.readerRecs...)
	h.mu.Unlock()
	if pingRace {
		// the capability was detected (by an acknowledged push) before the held ping was
		// answered; the protocol rule applies to the requests of operations that STARTED
		// after that moment, i.e. after every operation that was already running then
		// has returned
		fc := h.flipped.Load()
		detectClock = fc
		for _, o := range all {
			if o.Call < fc && o.Ret > detectClock {
				detectClock = o.Ret
			}
		}
		for _, rr := range rrecs {
			if rr[0] < fc && rr[1] > detectClock {
				detectClock = rr[1]
			}
		}
	}
	apiAfter, tagAfter, apiQuiescent, idxGets := 0, 0, 0, 0
	for _, q := range logCopy {
		if q.Class == "rAPI" {
			if q.Arr > detectClock {
				apiAfter++
			}
		}
		if (q.Class == "iGET" || q.Class == "iPUT" || q.Class == "iDEL") && q.Arr > detectClock {
			tagAfter++
		}
		if q.Class == "iGET" && q.Phase == phaseRun {
			idxGets++
		}
	}
	tagProtocol := !apiFirst
	// listing at quiescence
	type listing struct {
		refs, preds []ocispec.Descriptor
		err         error
	}
	lists := make([]listing, len(h.subjects))
	for n, s := range h.subjects {
		var l listing
		l.err = repo.Referrers(ctx, s.Desc, "", func(ds []ocispec.Descriptor) error { l.refs = append(l.refs, ds...); return nil })
		if l.err == nil {
			l.preds, l.err = repo.Predecessors(ctx, s.Desc)
		}
		lists[n] = l
	}
	h.settle()
	h.mu.Lock()
	for _, q := range h.log {
		if q.Class == "rAPI" && q.Phase == phaseQuiescent {
			apiQuiescent++
		}
		if q.Phase == phaseQuiescent && (q.Class == "iGET" || q.Class == "iPUT" || q.Class == "iDEL") && !tagProtocol {
			tagAfter++
		}
	}
	h.mu.Unlock()
	_ = quiescentClock

	if tagProtocol {
		if ((detect != "" || (pingRace && h.heldTillPush.Load())) && apiAfter > 0) || apiQuiescent > 0 {
			res.Violate("capability-flipped:api-request-after-tag-schema-detected", fmt.Sprintf("%d Referrers-API requests after the repository was known not to support the API (%d at quiescence); mode %s", apiAfter, apiQuiescent, mode), witness(nil))
		}
		if err := repo.SetReferrersCapability(true); !errors.Is(err, remote.ErrReferrersCapabilityAlreadySet) {
			res.Violate("capability-flipped:set-true-accepted", fmt.Sprintf("SetReferrersCapability(true) after tag-schema operation returned %v", err), witness(nil))
		}
		if err := repo.SetReferrersCapability(false); err != nil {
			res.Violate("capability-flipped:set-false-refused", fmt.Sprintf("SetReferrersCapability(false) after tag-schema operation returned %v", err), witness(nil))
		}
	} else {
		if tagAfter > 0 {
			res.Violate("capability-flipped:tag-schema-request-after-api-detected", fmt.Sprintf("%d referrers-tag requests after the repository was known to support the API", tagAfter), witness(nil))
		}
		if err := repo.SetReferrersCapability(false); !errors.Is(err, remote.ErrReferrersCapabilityAlreadySet) {
			res.Violate("capability-flipped:set-false-accepted", fmt.Sprintf("SetReferrersCapability(false) after API detection returned %v", err), witness(nil))
		}
		if err := repo.SetReferrersCapability(true); err != nil {
			res.Violate("capability-flipped:set-true-refused", fmt.Sprintf("SetReferrersCapability(true) after API detection returned %v", err), witness(nil))
		}
	}

	// ---- listing oracle (tag-schema rounds)
	judgedRefs := 0
	if tagProtocol && len(res.Viol) == 0 {
		var snap struct {
			model     [][]ocispec.Descriptor
			tagIndex  [][]byte
			tagDigest []digest.Digest
			manifest  map[digest.Digest]string
			tagged    map[digest.Digest]bool
		}
		h.reg.WithLock(func() {
			repoM := h.reg.Repos[repoName]
			snap.manifest = map[digest.Digest]string{}
			snap.tagged = map[digest.Digest]bool{}
			if repoM == nil {
				snap.model = make([][]ocispec.Descriptor, len(h.subjects))
				snap.tagIndex = make([][]byte, len(h.subjects))
				snap.tagDigest = make([]digest.Digest, len(h.subjects))
				return
			}
			for _, s := range h.subjects {
				snap.model = append(snap.model, regmodel.ReferrersOf(repoM, s.Desc.Digest))
				var b []byte
				var td digest.Digest
				if d, ok := repoM.Tags[s.Tag]; ok {
					if m, ok := repoM.Manifests[d]; ok {
						b = append([]byte{}, m.Bytes...)
						td = d
					}
				}
				snap.tagIndex = append(snap.tagIndex, b)
				snap.tagDigest = append(snap.tagDigest, td)
			}
			for d, m := range repoM.Manifests {
				snap.manifest[d] = m.MediaType
			}
			for _, d := range repoM.Tags {
				snap.tagged[d] = true
			}
		})
	subjects:
		for n, s := range h.subjects {
			l := lists[n]
			if l.err != nil {
				res.Violate("listing-failed", fmt.Sprintf("listing the referrers of subject %d at quiescence failed: %v", n, l.err), witness(nil))
				break
			}
			h.mu.Lock()
			updated := h.putOK[s.Tag] > 0
			h.mu.Unlock()
			L := l.refs
			untouchedDirty := !updated && s.Dirty != "" && s.Dirty != "clean"
			if untouchedDirty {
				// the client never rewrote this (dirty) pre-existing index: its
				// duplicates and empty entries are not the client's doing
				L = dedup(L)
				l.preds = dedup(l.preds)
				res.Count("unjudged_dirty_index_never_rewritten", 1)
			}
			model := map[digest.Digest]string{}
			for _, m := range snap.model[n] {
				model[m.Digest] = normDesc(m)
			}
			listed := map[digest.Digest]int{}
			for _, d := range L {
				listed[d.Digest]++
			}
			diff := func() map[string]any {
				return map[string]any{"subject": n, "listed": short(L), "model": short(snap.model[n]), "states": stateOf(h.refs, state, n)}
			}
			for _, d := range L {
				if isEmptyDesc(d) {
					res.Violate("listed-empty-descriptor", fmt.Sprintf("Referrers(subject %d) lists an empty descriptor", n), witness(diff()))
					break subjects
				}
				r := h.byDigest[d.Digest]
				if listed[d.Digest] > 1 {
					res.Violate("listed-twice", fmt.Sprintf("Referrers(subject %d) lists %s %d times", n, d.Digest, listed[d.Digest]), witness(diff()))
					break subjects
				}
				if r != nil && r.Subject == n && state[r.ID] == "absent" {
					res.Violate("deleted-still-listed", fmt.Sprintf("referrer %d of subject %d is listed although its delete was acknowledged (or it was never pushed)", r.ID, n), witness(diff()))
					break subjects
				}
				if r != nil && r.Subject == n && state[r.ID] == "unlisted" {
					key, what := "index-delete-error-before-update", fmt.Sprintf("delete of referrer %d returned a referrers-index-delete error but the referrer is still in the index: the update had not taken effect", r.ID)
					h.mu.Lock()
					if snap.tagDigest[n] != "" && h.failedDel[snap.tagDigest[n]] {
						// the index whose DELETE failed is still the one the tag points to: the batch
						// emptied the referrers list, pushed nothing, and deleting the index WAS the update
						key += ":emptied-index"
						what += " (the batch removed the last referrers, so no new index was pushed and the failed DELETE of the old index was the update itself)"
					}
					h.mu.Unlock()
					res.Violate(key, what, witness(diff()))
					break subjects
				}
				want, live := model[d.Digest]
				if !live {
					res.Violate("listed-not-live", fmt.Sprintf("Referrers(subject %d) lists %s which is not a live manifest naming the subject", n, d.Digest), witness(diff()))
					break subjects
				}
				if got := normDesc(d); got != want {
					res.Violate("descriptor-mismatch", fmt.Sprintf("Referrers(subject %d) lists %s, a registry with the Referrers API would list %s", n, got, want), witness(diff()))
					break subjects
				}
			}
			for _, r := range h.refs {
				if r.Subject != n {
					continue
				}
				st := state[r.ID]
				_, live := model[r.Desc.Digest]
				switch st {
				case "present":
					judgedRefs++
					if !live {
						res.Violate("acknowledged-push-not-in-registry", fmt.Sprintf("referrer %d was pushed successfully but the registry does not hold it", r.ID), witness(diff()))
						break subjects
					}
					if listed[r.Desc.Digest] == 0 {
						key, what := "acknowledged-push-missing", fmt.Sprintf("referrer %d of subject %d: push acknowledged, never deleted, but Referrers does not list it (lost update)", r.ID, n)
						if r.Pre && len(r.Script) == 0 {
							key, what = "untouched-referrer-missing", fmt.Sprintf("pre-existing referrer %d of subject %d was never operated on but is no longer listed", r.ID, n)
						}
						res.Violate(key, what, witness(diff()))
						break subjects
					}
				case "absent":
					judgedRefs++
					if live && hasAcked(all, r.ID, "delete") {
						res.Violate("acknowledged-delete-still-live", fmt.Sprintf("referrer %d: delete acknowledged but the registry still holds the manifest", r.ID), witness(diff()))
						break subjects
					}
				case "unlisted":
					judgedRefs++ // judged above: must not be listed
					if live {
						// Delete reported only the (ignorable) failure to remove the superseded index, the
						// referrer is gone from the index, yet the manifest itself was never deleted:
						// the listing no longer equals the live manifests naming the subject.
						res.Violate("delete-aborted-on-index-delete-error", fmt.Sprintf("delete of referrer %d of subject %d returned a referrers-index-delete error after the referrer was removed from the index, but the manifest was not deleted: it is live, names the subject and is not listed", r.ID, n), witness(diff()))
						break subjects
					}
				default:
					res.Count("unjudged_unacknowledged_referrers", 1)
				}
			}
			// Predecessors lists the same
			if a, b := multiset(L), multiset(l.preds); a != b {
				res.Violate("predecessors-differ-from-referrers", fmt.Sprintf("subject %d: Predecessors and Referrers disagree", n), witness(map[string]any{"referrers": short(L), "predecessors": short(l.preds)}))
				break
			}
			// filtered listing
			if len(L) > 0 {
				at := L[rng.IntN(len(L))].ArtifactType
				var F []ocispec.Descriptor
				if err := repo.Referrers(ctx, s.Desc, at, func(ds []ocispec.Descriptor) error { F = append(F, ds...); return nil }); err != nil {
					res.Violate("listing-failed", fmt.Sprintf("filtered listing failed: %v", err), witness(nil))
					break
				}
				if untouchedDirty {
					F = dedup(F)
				}
				var wantF []ocispec.Descriptor
				for _, d := range L {
					if d.ArtifactType == at || at == "" {
						wantF = append(wantF, d)
					}
				}
				if multiset(F) != multiset(wantF) {
					res.Violate("filtered-listing-wrong", fmt.Sprintf("subject %d: Referrers filtered by %q differs from the filtered full listing", n, at), witness(map[string]any{"filtered": short(F), "want": short(wantF)}))
					break
				}
			}
			// the index itself after an update
			if updated && snap.tagIndex[n] != nil {
				entries, err := indexEntries(snap.tagIndex[n])
				if err != nil {
					res.Violate("index-not-clean", "referrers index does not parse: "+err.Error(), witness(nil))
					break
				}
				if why := dirty(entries); why != "" {
					res.Violate("index-not-clean", fmt.Sprintf("referrers index of subject %d contains %s after an update", n, why), witness(diff()))
					break
				}
			}
		}
		h.mu.Lock()
		dp := append([]string{}, h.dirtyPut...)
		h.mu.Unlock()
		if len(dp) > 0 && len(res.Viol) == 0 {
			res.Violate("index-not-clean", dp[0], witness(map[string]any{"all": dp}))
		}
		// dangling index manifests
		if len(res.Viol) == 0 {
			known := map[digest.Digest]bool{}
			for _, r := range h.refs {
				known[r.Desc.Digest] = true
			}
			for _, s := range h.subjects {
				known[s.Desc.Digest] = true
			}
			var dangling, excused []string
			h.mu.Lock()
			for d := range snap.manifest {
				if known[d] || snap.tagged[d] {
					continue
				}
				if skipGC || h.failedDel[d] {
					excused = append(excused, d.String())
					continue
				}
				dangling = append(dangling, d.String())
			}
			h.mu.Unlock()
			res.Count("superseded_indexes_kept_legitimately", int64(len(excused)))
			if len(dangling) > 0 {
				sort.Strings(dangling)
				res.Violate("dangling-index", fmt.Sprintf("%d superseded referrers index manifest(s) were left in the registry although GC is on and their DELETE was not made to fail", len(dangling)), witness(map[string]any{"dangling": dangling}))
			}
		}
	}

	// In a ping-race round the capability itself may have stayed put (both
	// SetReferrersCapability probes behaved) while the one Delete that owned the late
	// ping still acted on the ping's answer instead of the detected capability.
	if pingRace {
		capFlipped := false
		for _, v := range res.Viol {
			if strings.HasPrefix(v.Key, "capability-flipped:set-") {
				capFlipped = true
			}
		}
		if !capFlipped {
			for k := range res.Viol {
				res.Viol[k].Key = "late-ping-answer-followed:" + res.Viol[k].Key
				res.Viol[k].What = "the Delete whose Referrers-API ping was answered after the capability had been detected followed the ping's answer, not the detected capability: " + res.Viol[k].What
			}
		}
		if h.heldTillPush.Load() {
			res.Count("ping_race_rounds_ping_answered_after_a_push_detected_the_capability", 1)
		} else {
			res.Count("ping_race_rounds_without_overlap", 1)
		}
	}

	// ---- evidence
	h.mu.Lock()
	var parts []string
	for _, s := range h.subjects {
		parts = append(parts, strings.Join(h.traces[s.Tag], ""))
	}
	sort.Strings(parts)
	fired := 0
	for _, f := range h.faults {
		if f.Fired {
			fired++
			res.Count("injected_"+f.Class+"_failures", 1)
		}
	}
	res.Key = fmt.Sprintf("%s|storm=%v|gc=%v|%s", mode, storm, !skipGC, strings.Join(parts, "/"))
	res.NT = h.merged2 > 0 && h.pending > 0
	res.MaxOf("max_batch_size", int64(h.maxBatch))
	res.Count("index_puts_merging_2plus", int64(h.merged2))
	res.Count("changes_seen_in_pending_queue", int64(h.pending))
	res.Count("index_puts_inspected", int64(h.dumps))
	res.Count("index_deletes_that_were_the_update_itself", int64(h.emptying))
	res.Count("requests", int64(len(h.log)))
	h.mu.Unlock()
	res.Count("hook_merge_committed", hookN)
	res.Count("index_gets_in_run_phase", int64(idxGets))
	res.Count("client_ops", int64(len(all)))
	res.Count("ops_ok", int64(nOK))
	res.Count("ops_index_delete_error", int64(nIdxDel))
	res.Count("ops_other_error", int64(nErr))
	res.Count("referrers_judged", int64(judgedRefs))
	res.Count("reader_calls_unjudged", readerCalls.Load())
	res.Count("rounds_"+mode, 1)
	if storm {
		res.Count("rounds_storm_of_failing_index_gets", 1)
	}
	res.Count("leaders_cancelled_between_index_put_and_cleanup", int64(len(cancelsNow)))
	for _, pp := range h.pps {
		res.Count("ping_pong_inverse_pairs_completed", pp.delDone.Load())
	}
	for _, s := range h.subjects {
		if s.Exact > 0 {
			res.Count("subjects_with_k_surplus_duplicates_and_k_new_referrers", 1)
		}
		if s.Twin > 0 {
			res.Count("subjects_without_index_whose_first_referrer_is_pushed_by_several_goroutines", 1)
		}
	}
	for _, r := range h.refs {
		if r.Enriched != "" {
			res.Count("referrers_pushed_with_enriched_descriptor", 1)
		}
		if r.Spell != 0 {
			res.Count("referrers_spelling_the_subject_descriptor_differently", 1)
		}
	}
	res.Count("spec_violations_seen_by_model", int64(len(h.reg.SpecViolations())))
	if mode != "plain" {
		if f := h.flipped.Load(); f > 0 && f < quiescentClock-1 {
			res.Count("flips_mid_run", 1)
		}
	}
	if nReaders == 0 && !hasDrop(h.faults) && int64(idxGets) != hookN {
		res.Count("rounds_hook_count_differs_from_index_gets", 1)
	}
	res.Observe("batch_traces", res.Key)
	if i%41 == 0 || (res.NT && i%17 == 0) {
		w := witness(nil)
		delete(w, "referrers")
		if ops, ok := w["ops"].([]opRec); ok && len(ops) > 6 {
			w["ops"] = ops[:6]
		}
		w["hook_batches"] = hookN
		w["non_trivial"] = res.NT
		res.Sample = w
	}
	return res
}

// awaitWorkers waits for the workers. Only after a generous delay it starts
// to look for a logical deadlock: no request in flight, none arriving, and
// every unfinished worker blocked on the channel receive in Merge.Do — the
// only goroutines that could ever signal those channels are workers inside
// Merge.Do themselves, so nobody is left to wake them.
func (h *round) awaitWorkers(finished chan struct{}) string {
	select {
	case <-finished:
		return ""
	case <-time.After(8 * time.Second):
	}
	lastReq := int64(-1)
	for {
		select {
		case <-finished:
			return ""
		case <-time.After(time.Second):
		}
		cur := h.totalReq.Load() + h.nextID.Load()
		idle := h.inflight.Load() == 0 && cur == lastReq
		lastReq = cur
		if !idle {
			continue
		}
		buf := make([]byte, 4<<20)
		buf = buf[:runtime.Stack(buf, true)]
		state := map[int64]string{}
		for _, blk := range strings.Split(string(buf), "\n\n") {
			nl := strings.IndexByte(blk, '\n')
			if nl < 0 || !strings.HasPrefix(blk, "goroutine ") {
				continue
			}
			var gid int64
			fmt.Sscanf(blk, "goroutine %d ", &gid)
			rest := blk[nl+1:]
			if e := strings.IndexByte(rest, '\n'); e >= 0 {
				rest = rest[:e]
			}
			if strings.Contains(blk[:nl], "[chan receive") && strings.Contains(rest, "syncutil.(*Merge") && strings.Contains(rest, ").Do(") {
				state[gid] = "merge-wait"
			} else {
				state[gid] = "other"
			}
		}
		blocked, unfinished := 0, 0
		for _, w := range h.workers {
			if w.done.Load() {
				continue
			}
			unfinished++
			if state[w.gid.Load()] == "merge-wait" {
				blocked++
			}
		}
		if unfinished > 0 && blocked == unfinished {
			return fmt.Sprintf("%d goroutine(s) are blocked for ever in Merge.Do waiting for a batch result: no request is in flight and no goroutine is left that could complete their batch", blocked)
		}
	}
}

// ---------------------------------------------------------------- helpers

// spin waits for a very short time without the granularity of the timer wheel.
func spin(d time.Duration) {
	for t0 := time.Now(); time.Since(t0) < d; {
		runtime.Gosched()
	}
}

func curGid() int64 {
	var b [64]byte
	n := runtime.Stack(b[:], false)
	var g int64
	fmt.Sscanf(string(b[:n]), "goroutine %d ", &g)
	return g
}

func pushVia(ctx context.Context, repo *remote.Repository, r *referrer) error {
	rd := bytes.NewReader(r.Bytes)
	switch r.Via {
	case 0:
		return repo.Push(ctx, r.PushDesc, rd)
	case 1:
		return repo.Manifests().Push(ctx, r.PushDesc, rd)
	case 2:
		return repo.PushReference(ctx, r.PushDesc, rd, "t"+strconv.Itoa(r.ID))
	default:
		return repo.Manifests().PushReference(ctx, r.PushDesc, rd, "u"+strconv.Itoa(r.ID))
	}
}

func deleteVia(ctx context.Context, repo *remote.Repository, r *referrer) error {
	if r.Via%2 == 0 {
		return repo.Delete(ctx, r.Desc)
	}
	return repo.Manifests().Delete(ctx, r.Desc)
}

func classify(err error) (string, string) {
	if err == nil {
		return "ok", ""
	}
	var re *remote.ReferrersError
	if errors.As(err, &re) && re.IsReferrersIndexDelete() {
		return "idxdel", trunc(err.Error(), 200)
	}
	return "err", trunc(err.Error(), 200)
}

func trunc(s string, n int) string {
	if len(s) > n {
		return s[:n]
	}
	return s
}

func descJSON(r *referrer) []byte {
	// the entry a correct index holds for r: rebuilt from the normalised form
	var d ocispec.Descriptor
	parts := strings.SplitN(r.Want, "|", 5)
	d.MediaType = parts[0]
	d.Digest = digest.Digest(parts[1])
	d.Size, _ = strconv.ParseInt(parts[2], 10, 64)
	d.ArtifactType = parts[3]
	if parts[4] != "null" {
		json.Unmarshal([]byte(parts[4]), &d.Annotations)
	}
	b, _ := json.Marshal(d)
	return b
}

func dedup(in []ocispec.Descriptor) []ocispec.Descriptor {
	seen := map[string]bool{}
	var out []ocispec.Descriptor
	for _, d := range in {
		k := normDesc(d)
		if isEmptyDesc(d) || seen[k] {
			continue
		}
		seen[k] = true
		out = append(out, d)
	}
	return out
}

func multiset(ds []ocispec.Descriptor) string {
	var ks []string
	for _, d := range ds {
		ks = append(ks, normDesc(d))
	}
	sort.Strings(ks)
	return strings.Join(ks, "\n")
}

func short(ds []ocispec.Descriptor) []string {
	var out []string
	for _, d := range ds {
		s := d.Digest.String()
		if len(s) > 19 {
			s = s[7:19]
		}
		out = append(out, s)
	}
	return out
}

func stateOf(refs []*referrer, state map[int]string, subj int) map[string]string {
	out := map[string]string{}
	for _, r := range refs {
		if r.Subject == subj {
			out[fmt.Sprintf("%d:%s", r.ID, r.Digest)] = state[r.ID]
		}
	}
	return out
}

func hasAcked(all []opRec, ref int, op string) bool {
	for _, o := range all {
		if o.Ref == ref && o.Op == op && o.Class == "ok" {
			return true
		}
	}
	return false
}

func hasDrop(fs []*fault) bool {
	for _, f := range fs {
		if f.How == "drop" {
			return true
		}
	}
	return false
}
