// C14 — Client-maintained referrers indexes lose no update under concurrency.
//
// Monitor: many short rounds. In each round one remote.Repository talks to a
// registry model WITHOUT the Referrers API (tag-schema fallback); 4–32
// goroutines push distinct referrer manifests of 1–3 subjects and delete
// referrers again, while the model delays and fails the index GET / PUT /
// DELETE exchanges (exactly the exchanges between prepare, commit and update of
// the merge protocol). At quiescence the oracle compares Referrers() and
// Predecessors() with the set of acknowledged operations and with what the
// model computes from its manifest store, inspects the model for dangling
// index manifests and dirty indexes, and checks that the detected referrers
// capability never flipped (some rounds switch the registry's capability
// mid-run). The same rounds are repeated under the race detector.
package main

import (
	_ "crypto/sha256"
	_ "crypto/sha512"
	"os"
	"path/filepath"
	"strings"

	"oras.land/oras-go/v2/verifharness/evidence"
	"oras.land/oras-go/v2/verifharness/worker"
)

const prop = "C14"

func main() {
	if worker.IsWorker() {
		installHook()
		worker.Serve(runCase)
		return
	}
	r := evidence.New(prop, "exploration")
	r.Rule("round = (seeded plan: 1–3 subjects, 4–32 goroutines each running push / push+delete / push+delete+re-push scripts over its own distinct referrers " +
		"(image manifests with and without artifactType, indexes, artifact manifests, with and without annotations), optional pre-existing index with duplicate and empty entries, " +
		"SkipReferrersGC on/off, capability preset or auto-detected, seeded delays on index GET/PUT/DELETE, 0–3 injected failures of the n-th index GET/PUT/DELETE, " +
		"optional concurrent readers, 20% of rounds flip the registry's Referrers-API capability mid-run); one Repository over regmodel without Referrers API; " +
		"oracle at quiescence on Referrers()/Predecessors(), the model's manifest store and the request trace; " +
		"distinct = hash(mode, GC, per-tag sequence of index exchanges with batch sizes and fault marks); " +
		"non-trivial = a round in which ≥1 index PUT merged ≥2 changes AND ≥1 change was seen waiting in the pending queue " +
		"(goroutine blocked in Merge.Do while an index PUT that does not contain its change was being served)")
	r.Assume("the registry model follows the distribution spec; injected failures leave the model's state untouched (the response is replaced before the request is handled)")
	r.Assume("interleavings are sampled, not enumerated; acknowledged = push/delete returned nil, or (push) a *ReferrersError with IsReferrersIndexDelete()")
	r.Assume("a Delete that returns a referrers-index-delete error is judged only for 'the index update took effect' (referrer no longer listed); whether the manifest itself is deleted is left open")

	worker.Run(r, worker.Opts{Phase: "conc", Total: r.N(300, 8000), Batch: 20})
	if bin := os.Getenv("VERIF_RACE_BIN"); bin != "" {
		raceDir, _ := os.MkdirTemp("", "verif-c14-race-")
		worker.Run(r, worker.Opts{Phase: "race", Total: r.N(60, 1500), Batch: 15, Bin: bin,
			Env: []string{"GORACE=halt_on_error=0 log_path=" + filepath.Join(raceDir, "race")}})
		n := countRaceReports(raceDir, r)
		r.Set("race_reports_in_library", n)
		os.RemoveAll(raceDir)
	}
	if r.Counter("hook_merge_committed") == 0 {
		r.Inconclusive("hook syncutil.merge.committed was never reached: no merge batch was observed inside the library")
	}
	r.Finish(r.N(100, 2500))
}

// countRaceReports counts DATA RACE blocks with a library frame.
func countRaceReports(dir string, r *evidence.Run) int {
	files, _ := filepath.Glob(filepath.Join(dir, "race*"))
	n := 0
	seen := map[string]bool{}
	for _, f := range files {
		b, _ := os.ReadFile(f)
		for _, blk := range strings.Split(string(b), "==================") {
			if !strings.Contains(blk, "WARNING: DATA RACE") {
				continue
			}
			lib := false
			var sig []string
			for _, l := range strings.Split(blk, "\n") {
				if strings.Contains(l, "oras.land/oras-go/v2/") && !strings.Contains(l, "verifharness") {
					lib = true
				}
				t := strings.TrimSpace(l)
				if strings.HasPrefix(t, "oras.land/") || strings.HasPrefix(t, "main.") {
					if p := strings.Index(t, "("); p > 0 {
						t = t[:p]
					}
					sig = append(sig, t)
				}
			}
			key := strings.Join(sig, ";")
			if seen[key] {
				continue
			}
			seen[key] = true
			if lib {
				n++
				r.Violation("race", "data race reported by the race detector in library code", blk)
			} else {
				r.Violation("harness:race", "data race inside the harness itself", blk)
			}
		}
	}
	return n
}
