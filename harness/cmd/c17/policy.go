package main

// Policy sweep: GenericPolicy.Retry and ExponentialBackoff are evaluated
// logically (no sleeping) over a grid of parameter cells; every cell is one
// worker case that draws several points inside the cell.

import (
	"fmt"
	"math"
	"math/big"
	"math/rand/v2"
	"net/http"
	"runtime/debug"
	"strconv"
	"strings"
	"time"

	"oras.land/oras-go/v2/registry/remote/retry"
	"oras.land/oras-go/v2/verifharness/worker"
)

var (
	cellAttempt = []string{"0", "1-5", "6-37", "38-63", "64-200", "201-100000"}
	cellJitter  = []string{"0", "(0,1)", "1", "out-of-domain"}
	cellFactor  = []string{"0", "(0,1)", "1", "2", "(1,10]", "huge"}
	cellBackoff = []string{"0", "ns", "ms", "s", "hours", "maxint", "negative", "custom-fn", "default"}
	cellOutcome = []string{"429+RA", "429+RA-odd", "429+RA-huge", "retryable-status", "timeout", "final-status", "fatal-error", "exhausted"}
	cellBounds  = []string{"min=max", "min=0", "wide", "tiny", "huge"}
)

func policyCells() int {
	return len(cellAttempt) * len(cellJitter) * len(cellFactor) * len(cellBackoff) * len(cellOutcome) * len(cellBounds)
}

type policyCell struct {
	Attempt, Jitter, Factor, Backoff, Outcome, Bounds string
}

func decodeCell(i int) policyCell {
	var c policyCell
	pick := func(names []string) string {
		v := names[i%len(names)]
		i /= len(names)
		return v
	}
	c.Outcome = pick(cellOutcome)
	c.Attempt = pick(cellAttempt)
	c.Jitter = pick(cellJitter)
	c.Factor = pick(cellFactor)
	c.Backoff = pick(cellBackoff)
	c.Bounds = pick(cellBounds)
	return c
}

func (c policyCell) String() string {
	return strings.Join([]string{c.Attempt, c.Jitter, c.Factor, c.Backoff, c.Outcome, c.Bounds}, "|")
}

type policyPoint struct {
	Cell       string        `json:"cell"`
	Attempt    int           `json:"attempt"`
	MaxRetry   int           `json:"max_retry"`
	Backoff    time.Duration `json:"backoff_ns"`
	Factor     jfloat        `json:"factor"`
	Jitter     jfloat        `json:"jitter"`
	MinWait    time.Duration `json:"min_wait_ns"`
	MaxWait    time.Duration `json:"max_wait_ns"`
	Status     int           `json:"status,omitempty"`
	RetryAfter string        `json:"retry_after,omitempty"`
	Err        string        `json:"err,omitempty"`
	CustomOut  time.Duration `json:"custom_backoff_result_ns,omitempty"`
}

// jfloat is a float64 that survives JSON encoding when it is NaN or infinite.
type jfloat float64

func (f jfloat) MarshalJSON() ([]byte, error) {
	v := float64(f)
	if math.IsNaN(v) || math.IsInf(v, 0) {
		return []byte(strconv.Quote(strconv.FormatFloat(v, 'g', -1, 64))), nil
	}
	return []byte(strconv.FormatFloat(v, 'g', -1, 64)), nil
}

func between(rng *rand.Rand, lo, hi int) int { return lo + rng.IntN(hi-lo+1) }

func drawPoint(c policyCell, rng *rand.Rand) policyPoint {
	p := policyPoint{Cell: c.String()}
	switch c.Attempt {
	case "0":
		p.Attempt = 0
	case "1-5":
		p.Attempt = between(rng, 1, 5)
	case "6-37":
		p.Attempt = between(rng, 6, 37)
	case "38-63":
		p.Attempt = between(rng, 38, 63)
	case "64-200":
		p.Attempt = between(rng, 64, 200)
	default:
		p.Attempt = []int{201, 1023, 1024, 1025, 5000, 100000}[rng.IntN(6)]
	}
	switch c.Jitter {
	case "0":
		p.Jitter = 0
	case "(0,1)":
		p.Jitter = jfloat([]float64{0.1, 0.5, 1e-9, 0.999999, rng.Float64()}[rng.IntN(5)])
		if p.Jitter == 0 {
			p.Jitter = 0.25
		}
	case "1":
		p.Jitter = 1
	default:
		p.Jitter = jfloat([]float64{-0.5, 1.5, 100, -1, math.Inf(1), math.NaN()}[rng.IntN(6)])
	}
	switch c.Factor {
	case "0":
		p.Factor = 0
	case "(0,1)":
		p.Factor = jfloat([]float64{0.5, 0.9, 0.01, 0.1 + 0.8*rng.Float64()}[rng.IntN(4)])
	case "1":
		p.Factor = 1
	case "2":
		p.Factor = 2
	case "(1,10]":
		p.Factor = jfloat([]float64{1.0001, 1.5, 3, 10, 1 + 9*rng.Float64()}[rng.IntN(5)])
	default:
		p.Factor = jfloat([]float64{1e3, 1e9, 1e300, math.MaxFloat64, math.Inf(1)}[rng.IntN(5)])
	}
	switch c.Backoff {
	case "0":
		p.Backoff = 0
	case "ns":
		p.Backoff = time.Duration(between(rng, 1, 999))
	case "ms":
		p.Backoff = time.Duration(between(rng, 1, 999)) * time.Millisecond
	case "s":
		p.Backoff = time.Duration(between(rng, 1, 600)) * time.Second
	case "hours":
		p.Backoff = time.Duration(between(rng, 1, 100000)) * time.Hour
	case "maxint":
		p.Backoff = time.Duration(math.MaxInt64 - int64(rng.IntN(3)))
	case "negative":
		p.Backoff = -time.Duration(between(rng, 1, 1000)) * time.Millisecond
	case "custom-fn":
		p.CustomOut = []time.Duration{0, -1, math.MinInt64, math.MaxInt64, time.Duration(rng.Int64()), -time.Duration(rng.Int64N(1 << 40)), time.Duration(rng.Int64N(1 << 40))}[rng.IntN(7)]
	case "default":
		p.Backoff, p.Factor, p.Jitter = 250*time.Millisecond, 2, 0.1
	}
	switch c.Bounds {
	case "min=max":
		p.MinWait = time.Duration(rng.Int64N(int64(10 * time.Second)))
		p.MaxWait = p.MinWait
	case "min=0":
		p.MinWait = 0
		p.MaxWait = time.Duration(rng.Int64N(int64(time.Minute)))
	case "wide":
		p.MinWait = time.Duration(rng.Int64N(int64(time.Second)))
		p.MaxWait = p.MinWait + time.Duration(rng.Int64N(int64(time.Hour)))
	case "tiny":
		p.MinWait = time.Duration(rng.IntN(5))
		p.MaxWait = p.MinWait + time.Duration(rng.IntN(5))
	default:
		p.MinWait = time.Duration(rng.Int64N(math.MaxInt64 / 2))
		p.MaxWait = p.MinWait + time.Duration(rng.Int64N(math.MaxInt64/2))
	}
	p.MaxRetry = p.Attempt + 1 + rng.IntN(5)
	switch c.Outcome {
	case "429+RA":
		p.Status = 429
		p.RetryAfter = []string{"1", "2", "3", "30", "120", "3600", "86400", "+7", strconv.Itoa(between(rng, 1, 1000000))}[rng.IntN(9)]
	case "429+RA-odd":
		p.Status = 429
		p.RetryAfter = []string{"0", "-5", "", "abc", "1.5", " 5", "Wed, 21 Oct 2015 07:28:00 GMT", "1e3", "0x10"}[rng.IntN(9)]
	case "429+RA-huge":
		p.Status = 429
		p.RetryAfter = hugeRetryAfter[rng.IntN(len(hugeRetryAfter))]
		if rng.IntN(6) == 0 {
			p.RetryAfter = strconv.FormatInt(9223372037+rng.Int64N(1<<40), 10)
		}
	case "retryable-status":
		p.Status = []int{408, 429, 500, 501, 502, 503, 504, 599}[rng.IntN(8)]
		if rng.IntN(3) == 0 {
			p.RetryAfter = []string{"5", "100000"}[rng.IntN(2)] // only meaningful on 429
		}
	case "timeout":
		p.Err = "timeout:" + timeoutVariants[rng.IntN(len(timeoutVariants))]
	case "final-status":
		p.Status = []int{200, 201, 204, 301, 400, 401, 403, 404, 409, 416, 499}[rng.IntN(11)]
	case "fatal-error":
		p.Err = "fatal:" + fatalVariants[rng.IntN(len(fatalVariants))]
	case "exhausted":
		p.Status = []int{503, 429, 200}[rng.IntN(3)]
		p.MaxRetry = p.Attempt - rng.IntN(3)
		if p.MaxRetry < 0 {
			p.MaxRetry = 0
		}
	}
	return p
}

// expectRetryAfter: the pause a Retry-After of v seconds asks for, brought
// within the bounds. ok is false when v is not a positive decimal integer.
func expectRetryAfter(v string, minWait, maxWait time.Duration) (time.Duration, bool) {
	z, ok := retryAfterSeconds(v)
	if !ok {
		return 0, false
	}
	want := maxWait
	if z.IsInt64() && z.Int64() <= int64(math.MaxInt64/time.Second) {
		want = time.Duration(z.Int64()) * time.Second
	}
	if want < minWait {
		want = minWait
	}
	if want > maxWait {
		want = maxWait
	}
	return want, true
}

// retryAfterSeconds parses a delay in seconds of any magnitude (1*DIGIT, an
// optional sign as strconv accepts it); ok is false unless it is positive.
func retryAfterSeconds(v string) (*big.Int, bool) {
	if v == "" || strings.ContainsAny(v, "_ ") {
		return nil, false
	}
	z, ok := new(big.Int).SetString(v, 10)
	if !ok || z.Sign() <= 0 {
		return nil, false
	}
	return z, true
}

// retryAfterKey names the violation by the magnitude of the value.
func retryAfterKey(v string) string {
	z, ok := retryAfterSeconds(v)
	switch {
	case !ok:
		return "retry-after-not-honoured"
	case !z.IsInt64():
		return "retry-after-beyond-int64"
	case z.Int64() > int64(math.MaxInt64/time.Second):
		return "retry-after-overflow"
	}
	return "retry-after-not-honoured"
}

// hugeRetryAfter: legal 1*DIGIT values around and beyond the int64 range.
var hugeRetryAfter = []string{"9223372036", "9223372037", "18446744074", "9223372036854775807", "99999999999",
	"9223372036854775808", "18446744073709551615", "18446744073709551616", "1000000000000000000000000000000",
	"00009223372036854775808", "000000000000000000000000000000000000000012", "0000000000000000000000000000009223372037"}

// evalPoint runs one parameter point; a panic in the library is a witness.
func evalPoint(p policyPoint, res *worker.Result) (paused bool) {
	stage := "construct"
	defer func() {
		if r := recover(); r != nil {
			shape := "other"
			j, f := float64(p.Jitter), float64(p.Factor)
			switch {
			case j == 0:
				shape = "jitter-0"
			case math.IsNaN(j) || j < 0 || j > 1:
				shape = "jitter-out-of-domain"
			case p.Backoff <= 0 || (f == 0 && p.Attempt > 0):
				shape = "zero-interval"
			case f < 1:
				shape = "vanishing-interval"
			default:
				shape = "overflow"
			}
			res.Violate("policy-panic:"+shape, fmt.Sprintf("%s panicked: %v", stage, r), map[string]any{"point": p, "stack": string(debug.Stack())})
		}
	}()
	var backoff retry.Backoff
	switch {
	case strings.Contains(p.Cell, "|custom-fn|"):
		out := p.CustomOut
		backoff = func(int, *http.Response) time.Duration { return out }
	case strings.Contains(p.Cell, "|default|"):
		backoff = retry.DefaultBackoff
	default:
		backoff = retry.ExponentialBackoff(p.Backoff, float64(p.Factor), float64(p.Jitter))
	}
	pol := &retry.GenericPolicy{Retryable: retry.DefaultPredicate, Backoff: backoff, MinWait: p.MinWait, MaxWait: p.MaxWait, MaxRetry: p.MaxRetry}
	var resp *http.Response
	var rerr error
	errKind, errVariant, _ := strings.Cut(p.Err, ":")
	switch errKind {
	case "timeout", "fatal":
		rerr = mkErr(errKind, errVariant, 1)
	default:
		resp = &http.Response{StatusCode: p.Status, Header: http.Header{}}
		if p.RetryAfter != "" {
			resp.Header.Set("Retry-After", p.RetryAfter)
		}
	}
	// the backoff function on its own must not panic either
	stage = "Backoff"
	_ = backoff(p.Attempt, resp)
	stage = "GenericPolicy.Retry"
	d, err := pol.Retry(p.Attempt, resp, rerr)
	res.Count("policy_points", 1)

	retryable := false
	switch {
	case rerr != nil:
		retryable = errKind == "timeout"
	default:
		retryable = p.Status == 408 || p.Status == 429 || p.Status >= 500
	}
	w := map[string]any{"point": p, "duration_ns": int64(d), "duration": d.String()}
	if err != nil {
		w["err"] = err.Error()
	}
	switch {
	case p.Attempt >= p.MaxRetry:
		if d >= 0 {
			res.Violate("policy-retry-beyond-max", fmt.Sprintf("Retry(attempt=%d) with MaxRetry=%d asks for another attempt (pause %v)", p.Attempt, p.MaxRetry, d), w)
		}
	case !retryable:
		if d >= 0 {
			res.Violate("policy-retries-non-retryable", fmt.Sprintf("Retry on a non-retryable outcome (status %d err %q) asks for another attempt (pause %v)", p.Status, p.Err, d), w)
		}
	case rerr != nil && !timeoutIsNetError(errVariant) && d < 0:
		// a timeout visible only through errors.As: declining to retry is fine
		res.Count("policy_wrapped_timeout_declined", 1)
	default:
		paused = true
		res.Count("policy_pauses_checked", 1)
		if err != nil {
			res.Violate("policy-error-on-retryable", fmt.Sprintf("Retry on a retryable outcome returned error %v", err), w)
			break
		}
		if d < p.MinWait || d > p.MaxWait {
			res.Violate("pause-out-of-bounds", fmt.Sprintf("pause %v outside [%v, %v]", d, p.MinWait, p.MaxWait), w)
			break
		}
		// a custom Backoff function decides itself what to do with the header;
		// ExponentialBackoff (and DefaultBackoff) promise to use it
		if p.Status == 429 && !strings.Contains(p.Cell, "|custom-fn|") {
			if want, ok := expectRetryAfter(p.RetryAfter, p.MinWait, p.MaxWait); ok {
				res.Count("retry_after_checked", 1)
				if d != want {
					res.Violate(retryAfterKey(p.RetryAfter), fmt.Sprintf("429 with Retry-After: %s and bounds [%v, %v]: pause %v, want %v", p.RetryAfter, p.MinWait, p.MaxWait, d, want), w)
				}
			}
		}
	}
	return paused
}

func runPolicyCase(i int, tier string, rng *rand.Rand, res *worker.Result) {
	cellIdx := i
	if tier != "thorough" {
		cellIdx = rng.IntN(policyCells())
	}
	c := decodeCell(cellIdx % policyCells())
	n := 50
	if tier == "thorough" {
		n = 150
	}
	paused := 0
	var sample policyPoint
	for k := 0; k < n && len(res.Viol) < 3; k++ {
		p := drawPoint(c, rng)
		if evalPoint(p, res) {
			paused++
		}
		sample = p
	}
	res.Evals = n
	res.Key = "policy|" + c.String()
	res.NT = paused > 0
	res.Observe("policy_outcome_classes", c.Outcome)
	if i == 0 {
		res.Sample = map[string]any{"phase": "policy", "cell": c.String(), "points": n, "last_point": sample}
	}
}
