package main

// Repository phase: remote.Repository blob / manifest pushes through the same
// instrumented stack, against a minimal scripted registry.

import (
	"bytes"
	"context"
	"encoding/hex"
	"encoding/json"
	"errors"
	"fmt"
	"io"
	"math/rand/v2"
	"net/http"
	"os"
	"path/filepath"
	"strings"
	"time"

	"github.com/opencontainers/go-digest"
	ocispec "github.com/opencontainers/image-spec/specs-go/v1"
	"oras.land/oras-go/v2/registry/remote"
	"oras.land/oras-go/v2/verifharness/worker"
)

type repoSpec struct {
	caseSpec
	Op        string `json:"op"`         // blob | manifest | manifest-ref
	Content   string `json:"content"`    // bytes | strings | buffer | nopcloser-bytes | oneshot | oneshot-nopcloser
	Client    string `json:"client"`     // auth | plain
	MediaType string `json:"media_type"` // manifests
	Referrers string `json:"referrers"`  // unknown | supported
	Offset    int    `json:"offset,omitempty"` // *-tail contents: the content starts at this offset of a larger stream
}

const dockerManifest = "application/vnd.docker.distribution.manifest.v2+json"

func randRepoSpec(rng *rand.Rand) repoSpec {
	var s repoSpec
	s.Phase, s.Calls = "repo", 1
	for n := rng.IntN(6); n > 0; n-- {
		s.Target = append(s.Target, randOutcome(rng, rng.IntN(2) == 0))
	}
	for n := rng.IntN(3); n > 0; n-- {
		s.Token = append(s.Token, concrete(rng, []string{"ok", "RS", "timeout", "429RA"}[rng.IntN(4)]))
	}
	s.Op = []string{"blob", "blob", "manifest", "manifest", "manifest-ref"}[rng.IntN(5)]
	s.Content = []string{"bytes", "strings", "buffer", "nopcloser-bytes", "oneshot", "oneshot", "oneshot-nopcloser",
		"seeker-tail", "seeker-tail", "nopcloser-seeker-tail", "file-tail", "seeker-whole"}[rng.IntN(12)]
	s.Offset = 1 + rng.IntN(5000)
	s.Client = []string{"auth", "auth", "auth", "plain"}[rng.IntN(4)]
	s.Size = randSize(rng)
	if s.Size > 300000 {
		s.Size = 300000
	}
	s.MaxRetry = rng.IntN(4)
	s.Cred = []string{"userpass", "refresh", "access", "empty"}[rng.IntN(4)]
	s.Cache = []string{"none", "cache", "single"}[rng.IntN(3)]
	if s.Op != "blob" {
		s.MediaType = []string{ocispec.MediaTypeImageManifest, dockerManifest, ocispec.MediaTypeImageIndex}[rng.IntN(3)]
		s.Referrers = []string{"unknown", "supported"}[rng.IntN(2)]
	}
	s.BodyKind = s.Content
	fillPacing(&s.caseSpec, rng)
	s.Method = "PUT"
	return s
}

// seekReader is a caller-owned stream (not one of net/http's replayable
// built-ins) that can seek; the content to push is its tail from the current
// position.
type seekReader struct {
	data []byte
	pos  int64
}

func (s *seekReader) Read(p []byte) (int, error) {
	if s.pos >= int64(len(s.data)) {
		return 0, io.EOF
	}
	n := copy(p, s.data[s.pos:])
	s.pos += int64(n)
	return n, nil
}

func (s *seekReader) Seek(off int64, whence int) (int64, error) {
	switch whence {
	case io.SeekCurrent:
		off += s.pos
	case io.SeekEnd:
		off += int64(len(s.data))
	}
	if off < 0 {
		return 0, errors.New("seekReader: negative position")
	}
	s.pos = off
	return off, nil
}

// repoContentFor builds the content reader; cleanup releases what it holds.
func repoContentFor(kind string, data []byte, offset int, rng *rand.Rand) (io.Reader, func(), error) {
	none := func() {}
	switch kind {
	case "seeker-whole":
		return &seekReader{data: data}, none, nil
	case "seeker-tail", "nopcloser-seeker-tail":
		stream := append(payload(rng, offset), data...)
		sr := &seekReader{data: stream, pos: int64(offset)}
		if kind == "nopcloser-seeker-tail" {
			return io.NopCloser(sr), none, nil
		}
		return sr, none, nil
	case "file-tail":
		dir, err := os.MkdirTemp("", "verif-C17-file-")
		if err != nil {
			return nil, none, err
		}
		cleanup := func() { os.RemoveAll(dir) }
		path := filepath.Join(dir, "stream")
		if err := os.WriteFile(path, append(payload(rng, offset), data...), 0o600); err != nil {
			cleanup()
			return nil, none, err
		}
		f, err := os.Open(path)
		if err != nil {
			cleanup()
			return nil, none, err
		}
		if _, err := f.Seek(int64(offset), io.SeekStart); err != nil {
			f.Close()
			cleanup()
			return nil, none, err
		}
		return f, func() { f.Close(); cleanup() }, nil
	}
	return repoContent(kind, data), none, nil
}

func repoContent(kind string, data []byte) io.Reader {
	switch kind {
	case "bytes":
		return bytes.NewReader(data)
	case "strings":
		return strings.NewReader(string(data))
	case "buffer":
		return bytes.NewBuffer(append([]byte(nil), data...))
	case "nopcloser-bytes":
		return io.NopCloser(bytes.NewReader(data))
	case "oneshot":
		return &oneShot{r: bytes.NewReader(data)}
	case "oneshot-nopcloser":
		return io.NopCloser(&oneShot{r: bytes.NewReader(data)})
	}
	panic("unknown content kind " + kind)
}

func manifestBytes(rng *rand.Rand, mediaType string, size int) []byte {
	pad := hex.EncodeToString(payload(rng, size/2+1))
	var doc any
	if mediaType == ocispec.MediaTypeImageIndex {
		doc = map[string]any{"schemaVersion": 2, "mediaType": mediaType, "manifests": []any{}, "annotations": map[string]string{"pad": pad}}
	} else {
		doc = map[string]any{"schemaVersion": 2, "mediaType": mediaType,
			"config":      map[string]any{"mediaType": "application/vnd.oci.empty.v1+json", "digest": "sha256:44136fa355b3678a1146ad16f7e8649e94fb4fc21fe77e8310c060f61caaff8a", "size": 2},
			"layers":      []any{},
			"annotations": map[string]string{"pad": pad}}
	}
	b, _ := json.Marshal(doc)
	return b
}

func runRepoCase(spec repoSpec, rng *rand.Rand, res *worker.Result) {
	st := buildStack(spec.caseSpec, rng)
	rec := st.rec
	var data []byte
	desc := ocispec.Descriptor{MediaType: "application/octet-stream"}
	if spec.Op == "blob" {
		data = payload(rng, spec.Size)
	} else {
		data = manifestBytes(rng, spec.MediaType, spec.Size)
		desc.MediaType = spec.MediaType
	}
	desc.Digest = digest.FromBytes(data)
	desc.Size = int64(len(data))

	stored := map[string][]byte{}
	session := 0
	rec.bodyFor = func(req *http.Request) ([]byte, bool) {
		if req.Method == http.MethodPut {
			return data, true
		}
		return nil, true
	}
	rec.handle = func(rec *recorder, a *attempt, req *http.Request, body []byte) *http.Response {
		resp := &http.Response{Proto: "HTTP/1.1", ProtoMajor: 1, ProtoMinor: 1, Header: http.Header{}}
		set := func(code int) *http.Response {
			resp.StatusCode = code
			resp.Status = fmt.Sprintf("%d %s", code, http.StatusText(code))
			return resp
		}
		p := req.URL.Path
		switch {
		case req.Method == http.MethodPost && strings.HasSuffix(p, "/blobs/uploads/"):
			session++
			resp.Header.Set("Location", fmt.Sprintf("/v2/ns/name/blobs/uploads/session-%d", session))
			return set(202)
		case req.Method == http.MethodPut && strings.Contains(p, "/blobs/uploads/session-"):
			dg := req.URL.Query().Get("digest")
			if digest.FromBytes(body).String() != dg {
				return set(400)
			}
			stored[dg] = append([]byte(nil), body...)
			return set(201)
		case req.Method == http.MethodPut && strings.Contains(p, "/manifests/"):
			dg := digest.FromBytes(body)
			ref := p[strings.LastIndex(p, "/")+1:]
			if strings.Contains(ref, ":") && ref != dg.String() {
				return set(400)
			}
			stored[dg.String()] = append([]byte(nil), body...)
			resp.Header.Set("Docker-Content-Digest", dg.String())
			return set(201)
		}
		return set(404)
	}

	repo, err := remote.NewRepository(targetHost + "/ns/name")
	if err != nil {
		res.Violate("harness:new-repository", err.Error(), spec)
		return
	}
	repo.PlainHTTP = true
	if spec.Client == "auth" {
		repo.Client = st.client
	} else {
		repo.Client = st.plain
	}
	if spec.Referrers == "supported" {
		repo.SetReferrersCapability(true)
	}
	ctx, cancel := context.WithCancel(context.Background())
	defer cancel()
	rec.cancel = cancel
	rec.resetCall(data, false, false)
	content, release, err := repoContentFor(spec.Content, data, spec.Offset, rng)
	if err != nil {
		res.Violate("harness:content", err.Error(), spec)
		return
	}
	defer release()
	cr := doCall(func() (*http.Response, error) {
		switch spec.Op {
		case "manifest-ref":
			return nil, repo.PushReference(ctx, desc, content, "v1")
		default:
			return nil, repo.Push(ctx, desc, content)
		}
	}, rec, false)

	bc := "replayable"
	if strings.HasPrefix(spec.Content, "oneshot") || strings.Contains(spec.Content, "seeker") || strings.HasPrefix(spec.Content, "file") {
		bc = "oneshot"
	}
	j := judgeCtx{spec: spec, bodyClass: bc, bodyKind: spec.Content, maxRetry: spec.MaxRetry, minWait: spec.MinWait, maxWait: spec.MaxWait,
		wantLen: func(a *attempt) int {
			if a.Method == http.MethodPut {
				return len(data)
			}
			return 0
		},
		mayContinue: func(a *attempt) bool {
			if !a.Target {
				return a.out.Kind == "ok"
			}
			if strings.HasPrefix(a.out.Kind, "401") {
				return true
			}
			// an accepted upload session is followed by the PUT
			return a.Method == http.MethodPost && a.resp != nil && a.resp.StatusCode == 202
		}}
	rec.mu.Lock()
	_, proceed := judgeLog(j, rec, cr, res)
	atts := rec.attempts
	puts, maxPutsPerSend := 0, 0
	perSend := map[int]int{}
	var parts []string
	for _, a := range atts {
		if a.Target && a.Method == http.MethodPut {
			puts++
			perSend[a.Send]++
			if perSend[a.Send] > maxPutsPerSend {
				maxPutsPerSend = perSend[a.Send]
			}
		}
		p := a.out.String()
		if i := strings.Index(p, "/r"); i >= 0 {
			p = p[:i]
		}
		if !a.Target {
			p = "k:" + p
		} else {
			p = a.Method[:2] + ":" + p
		}
		parts = append(parts, p)
	}
	if proceed {
		wit := func() map[string]any { return j.witness(rec, cr) }
		if cr.err == nil {
			res.Count("pushes_succeeded", 1)
			switch {
			case len(atts) == 0:
				res.Violate("push-ok-without-request", "push reported success though no request reached the registry", wit())
			default:
				last := atts[len(atts)-1]
				if !(last.Target && last.Method == http.MethodPut && last.resp != nil && last.resp.StatusCode == 201) {
					res.Violate("push-ok-without-created", fmt.Sprintf("push reported success; the last exchange was #%d %s -> %s", last.Seq, last.Method, last.Outcome), wit())
				} else if !bytes.Equal(stored[desc.Digest.String()], data) {
					res.Violate("push-ok-content-differs", "push reported success; the registry holds different bytes", wit())
				}
			}
		} else {
			res.Count("pushes_failed", 1)
		}
	}
	rec.mu.Unlock()
	res.Key = fmt.Sprintf("%s|%s|%s|%s|%s|mr%d|%s|%s|%s", strings.Join(parts, ","), spec.Op, spec.Content, spec.Client, sizeClass(len(data)), spec.MaxRetry, spec.Cred, spec.MediaType, spec.Referrers)
	res.NT = puts >= 2 && len(data) > 0
	res.Count("put_attempts", int64(puts))
	res.Observe("repo_ops", spec.Op+"/"+spec.Content+"/"+spec.Client)
	_ = time.Now
}
