package main

// Script phases: a request is sent through auth.Client -> retry.Transport ->
// scripted base, and the recorded event log is judged against the statement.

import (
	"context"
	"errors"
	"fmt"
	"math/rand/v2"
	"net/http"
	"net/url"
	"runtime"
	"strings"
	"time"

	"oras.land/oras-go/v2/registry/remote/auth"
	"oras.land/oras-go/v2/registry/remote/retry"
	"oras.land/oras-go/v2/verifharness/worker"
)

type caseSpec struct {
	Phase       string        `json:"phase"`
	Target      []outcome     `json:"target_script"`
	Token       []outcome     `json:"token_script"`
	BodyKind    string        `json:"body_kind"`
	Size        int           `json:"size"`
	Method      string        `json:"method"`
	MaxRetry    int           `json:"max_retry"`
	MinWait     time.Duration `json:"min_wait_ns"`
	MaxWait     time.Duration `json:"max_wait_ns"`
	Backoff     string        `json:"backoff"` // exp | custom
	Cred        string        `json:"cred"`    // userpass | refresh | access | empty
	Cache       string        `json:"cache"`   // none | cache | single
	ForceOAuth2 bool          `json:"force_oauth2,omitempty"`
	PresetAuth  bool          `json:"preset_auth,omitempty"`
	Scopes      [][]string    `json:"scopes,omitempty"` // per call
	Calls       int           `json:"calls"`
	CancelMode  string        `json:"cancel_mode,omitempty"`
	CancelAt    int           `json:"cancel_at,omitempty"`
	CancelDelay time.Duration `json:"cancel_delay_ns,omitempty"`
}

var (
	retryableStatuses = []int{408, 429, 500, 502, 503, 504}
	finalStatuses     = []int{400, 403, 404, 405, 409, 416}
	enumAlphabet      = []string{"401basic", "401bearer", "RS", "429RA", "timeout", "fatal", "final", "ok"}
	enumBodies        = []string{"none", "bytes", "oneshot"}
	enumRetries       = []int{0, 1, 2}
)

func readPermille(rng *rand.Rand) int {
	switch rng.IntN(4) {
	case 0:
		return rng.IntN(1001)
	case 1:
		return 0
	}
	return -1
}

// concrete turns an outcome class into a concrete scripted behaviour.
func concrete(rng *rand.Rand, class string) outcome {
	o := outcome{ReadPermille: readPermille(rng)}
	switch class {
	case "RS":
		o.Kind, o.Status = "status", retryableStatuses[rng.IntN(len(retryableStatuses))]
		if rng.IntN(5) == 0 {
			o.RetryAfter = []string{"0", "soon", "Wed, 21 Oct 2015 07:28:00 GMT", "-3"}[rng.IntN(4)]
		}
	case "429RA":
		o.Kind, o.Status = "status", 429
		o.RetryAfter = []string{"1", "2", "120", "86400", "007"}[rng.IntN(5)]
		if rng.IntN(3) == 0 {
			o.RetryAfter = hugeRetryAfter[rng.IntN(len(hugeRetryAfter))]
		}
	case "fatal":
		o.Kind, o.Err = "fatal", fatalVariants[rng.IntN(len(fatalVariants))]
	case "timeout":
		o.Kind, o.Err = "timeout", timeoutVariants[rng.IntN(len(timeoutVariants))]
	case "final":
		o.Kind, o.Status = "status", finalStatuses[rng.IntN(len(finalStatuses))]
	case "ok":
		o.Kind, o.ReadPermille = "ok", -1
	default:
		o.Kind = class // 401basic, 401bearer, 401none
	}
	return o
}

func enumScripts(maxLen int) int {
	n, p := 0, 1
	for l := 1; l <= maxLen; l++ {
		p *= len(enumAlphabet)
		n += p
	}
	return n
}

func enumTotal(maxLen int) int { return enumScripts(maxLen) * len(enumBodies) * len(enumRetries) }

// enumSpec decodes case i of the exhaustive phase.
func enumSpec(i, maxLen int, rng *rand.Rand) caseSpec {
	spec := caseSpec{Phase: "enum", Calls: 1}
	spec.BodyKind = enumBodies[i%len(enumBodies)]
	i /= len(enumBodies)
	spec.MaxRetry = enumRetries[i%len(enumRetries)]
	i /= len(enumRetries)
	// i is now the script index: scripts ordered by length
	l, p := 1, len(enumAlphabet)
	for i >= p {
		i -= p
		p *= len(enumAlphabet)
		l++
	}
	for k := 0; k < l; k++ {
		spec.Target = append(spec.Target, concrete(rng, enumAlphabet[i%len(enumAlphabet)]))
		i /= len(enumAlphabet)
	}
	spec.Size = []int{1, 100, 4096, 70000}[rng.IntN(4)]
	if spec.BodyKind == "none" {
		spec.Size = 0
	}
	spec.Cred = "userpass"
	if rng.IntN(3) == 0 {
		spec.Cred = "refresh"
	}
	spec.Cache = []string{"none", "cache"}[rng.IntN(2)]
	for n := rng.IntN(3); n > 0; n-- {
		spec.Token = append(spec.Token, concrete(rng, []string{"RS", "timeout", "ok", "429RA"}[rng.IntN(4)]))
	}
	fillPacing(&spec, rng)
	fillMethod(&spec, rng)
	return spec
}

func fillPacing(spec *caseSpec, rng *rand.Rand) {
	spec.MinWait = []time.Duration{0, 0, time.Millisecond, 2 * time.Millisecond}[rng.IntN(4)]
	spec.MaxWait = spec.MinWait + []time.Duration{0, time.Millisecond, 3 * time.Millisecond}[rng.IntN(3)]
	spec.Backoff = []string{"exp", "custom"}[rng.IntN(2)]
}

func fillMethod(spec *caseSpec, rng *rand.Rand) {
	if spec.BodyKind == "none" {
		spec.Method = []string{"GET", "HEAD", "DELETE", "POST"}[rng.IntN(4)]
	} else {
		spec.Method = []string{"PUT", "POST", "PATCH"}[rng.IntN(3)]
	}
}

func randOutcome(rng *rand.Rand, heavyRetry bool) outcome {
	x := rng.IntN(100)
	if heavyRetry {
		switch {
		case x < 55:
			return concrete(rng, "RS")
		case x < 65:
			return concrete(rng, "429RA")
		case x < 80:
			return concrete(rng, "timeout")
		case x < 90:
			return concrete(rng, []string{"401basic", "401bearer"}[rng.IntN(2)])
		case x < 95:
			return concrete(rng, "ok")
		}
		return concrete(rng, []string{"fatal", "final"}[rng.IntN(2)])
	}
	switch {
	case x < 28:
		return concrete(rng, "RS")
	case x < 35:
		return concrete(rng, "429RA")
	case x < 45:
		return concrete(rng, "timeout")
	case x < 55:
		return concrete(rng, "401basic")
	case x < 68:
		return concrete(rng, "401bearer")
	case x < 71:
		return concrete(rng, "401none")
	case x < 78:
		return concrete(rng, "fatal")
	case x < 85:
		return concrete(rng, "final")
	}
	return concrete(rng, "ok")
}

func randSize(rng *rand.Rand) int {
	switch x := rng.IntN(100); {
	case x < 6:
		return 0
	case x < 30:
		return 1 + rng.IntN(16)
	case x < 65:
		return 17 + rng.IntN(2000)
	case x < 90:
		return 4096 + rng.IntN(100000)
	case x < 98:
		return 200000 + rng.IntN(300000)
	}
	return 1 << 20
}

func randSpec(phase string, rng *rand.Rand) caseSpec {
	spec := caseSpec{Phase: phase, Calls: 1}
	cancel := phase == "cancel"
	for n := rng.IntN(7); n > 0; n-- {
		spec.Target = append(spec.Target, randOutcome(rng, cancel))
	}
	for n := rng.IntN(4); n > 0; n-- {
		var o outcome
		switch x := rng.IntN(100); {
		case x < 40:
			o = concrete(rng, "ok")
		case x < 70:
			o = concrete(rng, "RS")
		case x < 80:
			o = concrete(rng, "timeout")
		case x < 85:
			o = concrete(rng, "429RA")
		case x < 93:
			o = concrete(rng, "final")
		default:
			o = concrete(rng, "fatal")
		}
		spec.Token = append(spec.Token, o)
	}
	if cancel && len(spec.Target) == 0 {
		spec.Target = append(spec.Target, concrete(rng, "RS"))
	}
	spec.BodyKind = bodyKinds[rng.IntN(len(bodyKinds))]
	if cancel && rng.IntN(5) != 0 {
		spec.BodyKind = []string{"none", "bytes", "strings", "buffer", "custom-getbody"}[rng.IntN(5)]
	}
	spec.Size = randSize(rng)
	if spec.BodyKind == "none" {
		spec.Size = 0
	}
	spec.MaxRetry = rng.IntN(5)
	if cancel {
		spec.MaxRetry = 1 + rng.IntN(4)
		spec.CancelMode = []string{"attempt", "pause"}[rng.IntN(2)]
		spec.CancelAt = rng.IntN(3)
		spec.CancelDelay = []time.Duration{0, 100 * time.Microsecond, time.Millisecond}[rng.IntN(3)]
	}
	spec.Cred = []string{"userpass", "userpass", "refresh", "access", "empty"}[rng.IntN(5)]
	spec.Cache = []string{"none", "cache", "cache", "single"}[rng.IntN(4)]
	spec.ForceOAuth2 = rng.IntN(6) == 0
	spec.PresetAuth = rng.IntN(10) == 0
	if rng.IntN(10) < 3 {
		spec.Calls = 2
	}
	scopeSets := [][]string{nil, {"repository:foo:pull"}, {"repository:foo:pull,push"}, {"repository:bar:pull"}}
	for c := 0; c < spec.Calls; c++ {
		spec.Scopes = append(spec.Scopes, scopeSets[rng.IntN(len(scopeSets))])
	}
	if !cancel && rng.IntN(100) < 12 {
		// scenario: the second call meets a Bearer challenge while the cache
		// already holds a token for the challenged scopes
		spec.Calls = 2
		spec.Cache = []string{"cache", "single"}[rng.IntN(2)]
		spec.PresetAuth = false
		head := []outcome{concrete(rng, "401bearer"), concrete(rng, "ok"), concrete(rng, "401bearer")}
		spec.Target = append(head, spec.Target...)
		spec.Token = []outcome{concrete(rng, "ok")}
		spec.Scopes = [][]string{scopeSets[rng.IntN(3)], scopeSets[rng.IntN(2)]}
	}
	fillPacing(&spec, rng)
	fillMethod(&spec, rng)
	return spec
}

// stack is a constructed client stack with its recorder.
type stack struct {
	rec    *recorder
	client *auth.Client
	plain  *http.Client
}

func buildStack(spec caseSpec, rng *rand.Rand) *stack {
	rec := &recorder{
		targetScript: spec.Target, tokenScript: spec.Token,
		maxRetry: spec.MaxRetry, minWait: spec.MinWait, maxWait: spec.MaxWait,
		expBackoff: spec.Backoff == "exp",
		cancelMode: spec.CancelMode, cancelAtCand: spec.CancelAt, cancelDelay: spec.CancelDelay, cancelSeq: -1,
	}
	var backoff retry.Backoff
	if spec.Backoff == "exp" {
		backoff = retry.ExponentialBackoff(time.Millisecond, 2, 0.1)
	} else {
		seed := rng.Uint64()
		r := rand.New(rand.NewPCG(seed, 17))
		backoff = func(attempt int, resp *http.Response) time.Duration {
			// anything at all; the policy has to bring it within its bounds
			return time.Duration(r.Int64N(int64(12*time.Millisecond))) - 2*time.Millisecond
		}
	}
	generic := &retry.GenericPolicy{Retryable: retry.DefaultPredicate, Backoff: backoff,
		MinWait: spec.MinWait, MaxWait: spec.MaxWait, MaxRetry: spec.MaxRetry}
	rt := &retry.Transport{Base: &base{rec}, Policy: func() retry.Policy { return &recPolicy{rec: rec, inner: generic} }}
	hc := &http.Client{Transport: &sendMarker{rec: rec, next: rt}}
	ac := &auth.Client{Client: hc, ForceAttemptOAuth2: spec.ForceOAuth2}
	switch spec.Cred {
	case "userpass":
		ac.Credential = auth.StaticCredential(targetHost, auth.Credential{Username: "user", Password: "secret"})
	case "refresh":
		ac.Credential = auth.StaticCredential(targetHost, auth.Credential{RefreshToken: "refresh-token-value"})
	case "access":
		ac.Credential = auth.StaticCredential(targetHost, auth.Credential{AccessToken: "access-token-value"})
	}
	switch spec.Cache {
	case "cache":
		ac.Cache = auth.NewCache()
	case "single":
		ac.Cache = auth.NewSingleContextCache()
	}
	if rng.IntN(2) == 0 {
		ac.SetUserAgent("verif-c17")
	}
	return &stack{rec: rec, client: ac, plain: hc}
}

type callResult struct {
	resp     *http.Response
	err      error
	finished bool
	parked   string // non-empty: goroutine dump proves the call is parked in the retry pause
}

// parkedInRetryPause inspects a goroutine dump: a goroutine inside
// retry.(*Transport).RoundTrip that is parked (not runnable) after the
// context's cancel function has returned cannot be waiting for the context.
func parkedInRetryPause() string {
	buf := make([]byte, 4<<20)
	n := runtime.Stack(buf, true)
	for _, g := range strings.Split(string(buf[:n]), "\n\n") {
		if !strings.Contains(g, "retry.(*Transport).RoundTrip") {
			continue
		}
		head, _, _ := strings.Cut(g, "\n")
		for _, st := range []string{"[select", "[sleep", "[chan receive", "[semacquire", "[sync."} {
			if strings.Contains(head, st) {
				// the innermost library frame must be the retry loop itself
				lines := strings.Split(g, "\n")
				for _, l := range lines[1:] {
					if strings.HasPrefix(l, "\t") {
						continue
					}
					if strings.HasPrefix(l, "runtime.") || strings.HasPrefix(l, "time.") || strings.HasPrefix(l, "sync.") || strings.HasPrefix(l, "internal/") {
						continue
					}
					if strings.Contains(l, "retry.(*Transport).RoundTrip") {
						return g
					}
					break
				}
			}
		}
	}
	return ""
}

// doCall runs fn under a watchdog.
func doCall(fn func() (*http.Response, error), rec *recorder, cancelCase bool) callResult {
	type out struct {
		resp *http.Response
		err  error
	}
	ch := make(chan out, 1)
	go func() {
		resp, err := fn()
		ch <- out{resp, err}
	}()
	if !cancelCase {
		select {
		case o := <-ch:
			return callResult{resp: o.resp, err: o.err, finished: true}
		case <-time.After(90 * time.Second):
			return callResult{}
		}
	}
	wait := time.Second
	for round := 0; round < 240; round++ {
		select {
		case o := <-ch:
			return callResult{resp: o.resp, err: o.err, finished: true}
		case <-time.After(wait):
		}
		wait = 250 * time.Millisecond
		if !rec.cancelFired.Load() {
			continue
		}
		if g := parkedInRetryPause(); g != "" {
			// confirm: still there a moment later
			select {
			case o := <-ch:
				return callResult{resp: o.resp, err: o.err, finished: true}
			case <-time.After(250 * time.Millisecond):
			}
			if g2 := parkedInRetryPause(); g2 != "" {
				return callResult{parked: g2}
			}
		}
	}
	return callResult{}
}

func bodyClass(kind string) string {
	switch {
	case kind == "none":
		return "none"
	case isOneShot(kind):
		return "oneshot"
	case kind == "flaky-getbody":
		return "flaky"
	}
	return "replayable"
}

func sizeClass(n int) string {
	switch {
	case n == 0:
		return "0"
	case n <= 16:
		return "tiny"
	case n <= 4096:
		return "small"
	case n <= 150000:
		return "mid"
	case n < 1<<20:
		return "big"
	}
	return "1MiB"
}

// runScriptCase executes one scripted case and judges it.
func runScriptCase(spec caseSpec, rng *rand.Rand, res *worker.Result) {
	st := buildStack(spec, rng)
	rec := st.rec
	var seqs []string
	totalTargetAttempts, maxTargetAttempts := 0, 0
	for call := 0; call < spec.Calls; call++ {
		ctx, cancel := context.WithCancel(context.Background())
		rec.cancel = cancel
		if call < len(spec.Scopes) && spec.Scopes[call] != nil {
			ctx = auth.WithScopes(ctx, spec.Scopes[call]...)
		}
		data := payload(rng, spec.Size)
		req, err := newRequest(ctx, spec.Method, "http://"+targetHost+"/v2/foo/blobs/uploads/", spec.BodyKind, data, rng)
		if err != nil {
			res.Violate("harness:new-request", err.Error(), spec)
			cancel()
			return
		}
		if spec.PresetAuth {
			req.Header.Set("Authorization", "Bearer preset")
		}
		rec.resetCall(data, spec.BodyKind == "none", replayableKind(spec.BodyKind))
		cr := doCall(func() (*http.Response, error) { return st.client.Do(req) }, rec, spec.CancelMode != "")
		n := judgeCall(spec, call, rec, cr, res)
		totalTargetAttempts += n
		if n > maxTargetAttempts {
			maxTargetAttempts = n
		}
		rec.mu.Lock()
		var parts []string
		for _, a := range rec.attempts {
			p := a.out.String()
			if i := strings.Index(p, "/r"); i >= 0 {
				p = p[:i]
			}
			if !a.Target {
				p = "k:" + p
			}
			parts = append(parts, p)
		}
		rec.mu.Unlock()
		seqs = append(seqs, strings.Join(parts, ","))
		if cr.finished && cr.resp != nil {
			cr.resp.Body.Close()
		}
		cancel()
		if !cr.finished || rec.cancelSeq >= 0 {
			break
		}
	}
	res.Key = fmt.Sprintf("%s|%s|%s|mr%d|%s|%s|%s", strings.Join(seqs, ";"), bodyClass(spec.BodyKind), sizeClass(spec.Size), spec.MaxRetry, spec.Cred, spec.Cache, spec.CancelMode)
	res.NT = maxTargetAttempts >= 2 && spec.Size > 0 && spec.BodyKind != "none"
	res.Count("target_attempts", int64(totalTargetAttempts))
	res.Observe("body_kinds", spec.BodyKind)
	res.Observe("size_classes", sizeClass(spec.Size))
}

// judgeCtx is what the oracle needs to know about a call.
type judgeCtx struct {
	spec      any // for the witness
	call      int
	bodyClass string
	bodyKind  string
	maxRetry  int
	minWait   time.Duration
	maxWait   time.Duration
	cancel    string
	// wantLen returns the length of the body the attempt had to carry
	wantLen func(a *attempt) int
	// mayContinue: after this attempt ended its send, further requests are legitimate
	mayContinue func(a *attempt) bool
}

func (j judgeCtx) witness(rec *recorder, cr callResult) map[string]any {
	w := map[string]any{"spec": j.spec, "call": j.call, "attempts": rec.attempts, "policy_calls": rec.policyCalls, "finished": cr.finished}
	if cr.err != nil {
		w["error"] = cr.err.Error()
	}
	if cr.resp != nil {
		w["response_status"] = cr.resp.StatusCode
		w["response_attempt"] = cr.resp.Header.Get("X-Attempt")
	}
	if cr.parked != "" {
		w["goroutine"] = cr.parked
	}
	return w
}

// judgeCall applies the statement to the event log of one script-phase call.
// It returns the number of attempts of the target request.
func judgeCall(spec caseSpec, call int, rec *recorder, cr callResult, res *worker.Result) int {
	if spec.CancelMode != "" && cr.finished {
		// settle: a stray attempt after the return would show up here
		time.Sleep(2 * time.Millisecond)
	}
	j := judgeCtx{spec: spec, call: call, bodyClass: bodyClass(spec.BodyKind), bodyKind: spec.BodyKind,
		maxRetry: spec.MaxRetry, minWait: spec.MinWait, maxWait: spec.MaxWait, cancel: spec.CancelMode,
		wantLen: func(*attempt) int { return len(rec.original) },
		mayContinue: func(a *attempt) bool {
			// any 401 is an authentication challenge the auth layer may answer
			// with a token fetch / re-send (a second 401 met while trying a
			// cached token is not parsed again by the library)
			return (a.Target && strings.HasPrefix(a.out.Kind, "401")) || (!a.Target && a.out.Kind == "ok")
		}}
	rec.mu.Lock()
	defer rec.mu.Unlock()
	nTarget, proceed := judgeLog(j, rec, cr, res)
	if !proceed {
		return nTarget
	}
	atts := rec.attempts
	wit := func() map[string]any { return j.witness(rec, cr) }
	if len(atts) == 0 {
		if cr.err == nil {
			res.Violate("response-without-attempt", "call returned a response though no request reached the transport", wit())
		}
		return nTarget
	}
	last := atts[len(atts)-1]
	if cr.err == nil {
		switch {
		case cr.resp == nil:
			res.Violate("nil-response", "call returned neither response nor error", wit())
		case cr.resp.Header.Get("X-Attempt") != fmt.Sprint(last.Seq) || !last.Target:
			res.Violate("stale-response", fmt.Sprintf("call returned the response of attempt #%s, the last attempt was #%d (%s)", cr.resp.Header.Get("X-Attempt"), last.Seq, last.Outcome), wit())
		case last.body != nil && last.body.closed.Load():
			res.Violate("returned-response-closed", fmt.Sprintf("call returned the response of attempt #%d with its body already closed", last.Seq), wit())
		}
		res.Count("calls_returning_response", 1)
	} else {
		res.Count("calls_returning_error", 1)
		if last.err != nil && !errors.Is(cr.err, last.err) {
			res.Violate("error-not-returned", fmt.Sprintf("last attempt #%d failed with %q, the call returned the unrelated error %q", last.Seq, last.err, cr.err), wit())
		}
		if last.err == nil && last.Target && last.resp != nil && last.resp.StatusCode < 300 {
			res.Count("errors_after_successful_last_response", 1)
		}
	}
	return nTarget
}

// judgeLog checks the clauses shared by all phases: complete bodies on every
// attempt, bounded sends, non-retryable answers returned at once, pacing and
// cancellation. proceed is false when the result clauses do not apply
// (unfinished or cancelled call).
func judgeLog(j judgeCtx, rec *recorder, cr callResult, res *worker.Result) (nTarget int, proceed bool) {
	atts := rec.attempts
	wit := func() map[string]any { return j.witness(rec, cr) }
	bc := j.bodyClass
	res.Count("calls", 1)
	res.Count("attempts", int64(len(atts)))

	// --- every attempt carries the complete original body ---
	firstBy := map[string]*attempt{}
	for _, a := range atts {
		if !a.Target {
			continue
		}
		nTarget++
		res.Count("bodies_compared", 1)
		if a.WantRead >= 0 {
			res.Count("bodies_partially_read_by_server", 1)
		}
		rk := a.Method + " " + a.URL
		first := firstBy[rk]
		how := "first"
		if a.InSend > 0 {
			how = "retry"
		} else if first != nil {
			how = "auth-resend"
		}
		abc := bc
		if a.BodyNil && j.wantLen(a) == 0 {
			abc = "none"
		}
		if how != "first" {
			res.Count("resends_"+how, 1)
			if abc != "none" {
				res.Count("resends_with_body", 1)
			}
			if abc == "oneshot" {
				res.Count("oneshot_resends", 1)
			}
		}
		if !a.GotOK {
			wantLen := j.wantLen(a)
			full := wantLen
			if a.WantRead >= 0 && a.WantRead < wantLen {
				wantLen = a.WantRead
			}
			shape := "corrupt"
			switch {
			case a.ReadErr != "":
				shape = "read-error"
			case a.GotLen == 0 && wantLen > 0:
				shape = "empty"
			case a.GotLen < wantLen:
				shape = "truncated"
			}
			res.Violate(fmt.Sprintf("body-%s:%s:%s", shape, abc, how),
				fmt.Sprintf("attempt #%d (%s) of %s carried %d of the %d bytes the server read for (original body %d bytes, kind %s)%s",
					a.Seq, how, a.Method, a.GotLen, wantLen, full, j.bodyKind, errNote(a.ReadErr)), wit())
			break
		}
		if first == nil {
			firstBy[rk] = a
		} else if a.ContentLen != first.ContentLen {
			res.Violate("content-length-changed:"+abc+":"+how, fmt.Sprintf("attempt #%d announced Content-Length %d, the first attempt %d", a.Seq, a.ContentLen, first.ContentLen), wit())
		}
	}
	// re-sent token requests (OAuth2 POST) carry their whole form every time
	for i, a := range atts {
		if a.Target || a.InSend == 0 || i == 0 {
			continue
		}
		prev := atts[i-1]
		if prev.Target || prev.Send != a.Send {
			continue
		}
		res.Count("token_resends", 1)
		if string(prev.rawBody) != string(a.rawBody) || prev.Method != a.Method || prev.URL != a.URL {
			res.Violate("token-request-changed:retry", fmt.Sprintf("token request attempt #%d differs from attempt #%d: %s %s body %q vs %s %s body %q", a.Seq, prev.Seq, a.Method, a.URL, a.rawBody, prev.Method, prev.URL, prev.rawBody), wit())
		}
		if a.Method == http.MethodPost {
			res.Count("token_post_resends", 1)
			form, err := url.ParseQuery(string(a.rawBody))
			if err != nil || form.Get("grant_type") == "" || form.Get("client_id") == "" {
				res.Violate("token-request-body-incomplete:retry", fmt.Sprintf("token POST attempt #%d carries body %q", a.Seq, a.rawBody), wit())
			}
		}
	}

	// --- sends: bounded, non-retryable answers returned at once ---
	type sendInfo struct{ first, last int }
	var sends []sendInfo
	for i, a := range atts {
		if i == 0 || atts[i-1].Send != a.Send {
			sends = append(sends, sendInfo{i, i})
		} else {
			sends[len(sends)-1].last = i
		}
	}
	res.Count("sends", int64(len(sends)))
	for _, s := range sends {
		n := s.last - s.first + 1
		res.MaxOf("max_attempts_per_send", int64(n))
		if n > 1 {
			res.Count("sends_with_retries", 1)
		}
		if n > j.maxRetry+1 {
			res.Violate("too-many-attempts", fmt.Sprintf("send %d made %d attempts with MaxRetry=%d", atts[s.first].Send, n, j.maxRetry), wit())
		}
		for i := s.first; i < s.last; i++ {
			if !atts[i].out.retryable() {
				res.Violate("retried-non-retryable:"+outcomeClass(atts[i].out), fmt.Sprintf("attempt #%d answered %s (not retryable) and the request was attempted again within the same send", atts[i].Seq, atts[i].Outcome), wit())
			}
		}
		// pacing: the real pause is never shorter than the policy's
		for i := s.first; i < s.last; i++ {
			for _, pc := range rec.policyCalls {
				if pc.Send == atts[i].Send && pc.Attempt == atts[i].InSend && pc.Duration >= 0 {
					gap := atts[i+1].tStart.Sub(atts[i].tEnd)
					res.Count("pauses_timed", 1)
					if gap < pc.Duration {
						res.Violate("pause-shorter-than-policy", fmt.Sprintf("policy asked for a pause of %v before attempt #%d, it started after %v", pc.Duration, atts[i+1].Seq, gap), wit())
					}
				}
			}
		}
	}
	for _, pc := range rec.policyCalls {
		res.Count("policy_calls_live", 1)
		if pc.Real >= 0 && pc.Err == "" && (pc.Real < j.minWait || pc.Real > j.maxWait) {
			res.Violate("pause-out-of-bounds:live", fmt.Sprintf("policy computed a pause of %v outside [%v, %v] (attempt %d)", pc.Real, j.minWait, j.maxWait, pc.Attempt), wit())
		} else if pc.Real >= 0 && pc.Err == "" && pc.Status == 429 && rec.expBackoff {
			// ExponentialBackoff promises to use a Retry-After on 429
			if want, ok := expectRetryAfter(pc.RetryAfter, j.minWait, j.maxWait); ok {
				res.Count("retry_after_checked_live", 1)
				if pc.Real != want {
					res.Violate(retryAfterKey(pc.RetryAfter)+":live", fmt.Sprintf("429 with Retry-After: %s and bounds [%v, %v]: policy computed %v, want %v", pc.RetryAfter, j.minWait, j.maxWait, pc.Real, want), wit())
				}
			}
		}
	}

	// --- cancellation during a pause ---
	cancelJudged := false
	if rec.cancelSeq >= 0 {
		pauseRequested := false
		for _, pc := range rec.policyCalls {
			if pc.Duration == longPause {
				pauseRequested = true
			}
		}
		if pauseRequested {
			cancelJudged = true
			res.Count("cancellations_during_pause", 1)
			res.Observe("cancel_modes", j.cancel)
			switch {
			case cr.parked != "":
				res.Violate("cancel-ignored", fmt.Sprintf("context cancelled (%s) around attempt #%d, an hour-long pause followed, and the call stays parked in the retry loop", j.cancel, rec.cancelSeq), wit())
			case !cr.finished:
				res.Inconc = fmt.Sprintf("cancel case: call neither returned nor provably parked (attempt #%d)", rec.cancelSeq)
			default:
				if cr.err == nil || !errors.Is(cr.err, context.Canceled) {
					res.Violate("cancel-wrong-result", fmt.Sprintf("context cancelled during the pause after attempt #%d; call returned resp=%v err=%v instead of the context's error", rec.cancelSeq, cr.resp != nil, cr.err), wit())
				}
				if len(atts)-1 != rec.cancelSeq {
					res.Violate("attempt-after-cancel", fmt.Sprintf("context cancelled during the pause after attempt #%d; %d more attempt(s) followed", rec.cancelSeq, len(atts)-1-rec.cancelSeq), wit())
				}
			}
		} else {
			res.Count("cancellations_without_pause_unjudged", 1)
		}
	}
	if !cr.finished {
		if !cancelJudged {
			res.Inconc = "call did not return within the watchdog"
		}
		return nTarget, false
	}
	if rec.cancelSeq >= 0 {
		// the context was cancelled somewhere in this call: the result clauses
		// speak about uncancelled calls
		return nTarget, false
	}

	// --- non-retryable answers are returned at once ---
	for i, s := range sends {
		if i == len(sends)-1 {
			break
		}
		a := atts[s.last]
		if !j.mayContinue(a) {
			res.Violate("not-returned-at-once:"+outcomeClass(a.out), fmt.Sprintf("attempt #%d ended its send with %s, yet %d more request(s) were sent", a.Seq, a.Outcome, len(atts)-1-a.Seq), wit())
		}
	}
	return nTarget, true
}

func errNote(s string) string {
	if s == "" {
		return ""
	}
	return "; reading the body failed: " + s
}

func outcomeClass(o outcome) string {
	switch o.Kind {
	case "status":
		return fmt.Sprint(o.Status)
	case "fatal", "timeout":
		return o.Kind + ":" + o.Err
	}
	return o.Kind
}
