// C17 — Re-sent requests carry the whole body; retries are bounded and paced.
//
// Monitor: the real client stack (auth.Client over retry.Transport) is driven
// against a scripted in-process base transport that records, for every
// attempt, the bytes it received, the send it belongs to, the policy's
// decision and the time. The event log of every call is judged against the
// statement. GenericPolicy / ExponentialBackoff are additionally swept
// logically over a grid of parameter cells (no sleeping).
//
// Phases
//
//	enum    every script over 8 outcome classes up to length L x body kind x MaxRetry (exhaustive)
//	rand    random longer scripts, all body kinds, sizes 0..1 MiB, credentials, caches, two calls
//	cancel  the script cancels the context inside attempt j / during the pause that follows
//	repo    remote.Repository blob and manifest pushes through the same stack
//	policy  parameter cells of GenericPolicy.Retry / ExponentialBackoff
package main

import (
	_ "crypto/sha256"
	_ "crypto/sha512"
	"os"
	"time"

	"oras.land/oras-go/v2/verifharness/evidence"
	"oras.land/oras-go/v2/verifharness/worker"
)

func enumLen(tier string) int {
	if tier == "thorough" {
		return 5
	}
	return 4
}

func tier() string {
	if os.Getenv("VERIF_TIER") == "thorough" {
		return "thorough"
	}
	return "quick"
}

func main() {
	if worker.IsWorker() {
		worker.Serve(runCase)
		return
	}
	r := evidence.New("C17", "fault_enumeration")
	r.Rule("enum phase: EVERY server-behaviour script over the 8 outcome classes {401 Basic, 401 Bearer, retryable status 408/429/5xx, 429+Retry-After, timeout, other transport error, non-retryable status, success} " +
		"of length 1..L (L=4 quick, 5 thorough) x body kind {none, replayable, one-shot} x MaxRetry {0,1,2}, concrete status / size / how much of the body the server reads before answering / token-service script drawn from the seed; " +
		"rand, cancel, repo phases: seeded random scripts (<=6 target + <=3 token-service outcomes), 10 body kinds, sizes 0..1 MiB, 4 credential kinds, 3 caches, 1-2 calls per client, remote.Repository blob/manifest pushes; " +
		"policy phase: parameter cells (attempt bucket x jitter x factor x backoff x outcome x bounds), several points per cell (all cells in thorough); " +
		"oracle per call: bytes received on every attempt == original body (or the prefix the server chose to read), <= MaxRetry+1 attempts per send, no attempt after a non-retryable answer, result is the last response or an error, " +
		"real pause >= policy pause in [MinWait, MaxWait], cancellation => context error and no further attempt; " +
		"distinct = observed outcome sequence + body class + size class + MaxRetry + credential + cache (policy: cell); non-trivial = the target request reached the transport >= 2 times with a non-empty body (policy: the cell produced a pause that was checked)")
	r.Assume("the scripted base transport stands for net/http.Transport + registry: it reads the request body (fully or a scripted prefix), closes it and answers; real sockets are not used")
	r.Assume("retryable = 408, 429, 5xx, net.Error timeouts; everything else is non-retryable (statement's list)")
	r.Assume("cancellation cases use an hour-long policy pause so that no verdict depends on timing; a call that stays parked is proven by a goroutine dump taken after cancel() returned")
	r.Assume("policy sweep draws 0 <= MinWait <= MaxWait")

	L := enumLen(r.Tier)
	worker.Run(r, worker.Opts{Phase: "enum", Total: enumTotal(L), Batch: 150, Timeout: 15 * time.Minute})
	r.Set("enum_script_max_len", L)
	r.Set("enum_scripts", enumScripts(L))
	r.Set("enum_phase_exhaustive", true)
	worker.Run(r, worker.Opts{Phase: "rand", Total: r.N(5000, 200000), Batch: 100, Timeout: 15 * time.Minute})
	worker.Run(r, worker.Opts{Phase: "cancel", Total: r.N(1000, 30000), Batch: 50, Timeout: 15 * time.Minute})
	worker.Run(r, worker.Opts{Phase: "repo", Total: r.N(2000, 60000), Batch: 100, Timeout: 15 * time.Minute})
	worker.Run(r, worker.Opts{Phase: "policy", Total: r.N(4000, policyCells()), Batch: 500, Timeout: 15 * time.Minute})
	r.Set("policy_cells_total", policyCells())
	r.Finish(r.N(3000, 40000))
}

func runCase(phase string, i int) worker.Result {
	seed := evidence.New("C17", "fault_enumeration").Seed
	rng := evidence.RandFor(seed, "c17-"+phase, i)
	var res worker.Result
	switch phase {
	case "enum":
		spec := enumSpec(i, enumLen(tier()), rng)
		runScriptCase(spec, rng, &res)
		if i == 100 {
			res.Sample = map[string]any{"phase": phase, "spec": spec, "key": res.Key}
		}
	case "rand", "cancel":
		spec := randSpec(phase, rng)
		runScriptCase(spec, rng, &res)
		if i == 0 {
			res.Sample = map[string]any{"phase": phase, "spec": spec, "key": res.Key}
		}
	case "repo":
		spec := randRepoSpec(rng)
		runRepoCase(spec, rng, &res)
		if i == 0 {
			res.Sample = map[string]any{"phase": phase, "spec": spec, "key": res.Key}
		}
	case "policy":
		runPolicyCase(i, tier(), rng, &res)
	default:
		res.Violate("harness:phase", "unknown phase "+phase, nil)
	}
	return res
}
