package main

// The stack under test and the instruments around it:
//
//	auth.Client -> http.Client -> sendMarker -> retry.Transport -> scripted base
//	                                             (Policy = recording policy)
//
// Everything below http.Client runs in the caller's goroutine, so the recorder
// sees one totally ordered event log per call.

import (
	"bytes"
	"context"
	"errors"
	"fmt"
	"io"
	"math/rand/v2"
	"net"
	"net/http"
	"net/url"
	"os"
	"strings"
	"sync"
	"sync/atomic"
	"syscall"
	"time"

	"oras.land/oras-go/v2/registry/remote/retry"
)

const (
	targetHost = "registry.example"
	tokenHost  = "auth.example"
	realmURL   = "http://auth.example/token"
)

// outcome is one scripted server behaviour.
type outcome struct {
	Kind       string `json:"kind"` // ok | 401basic | 401bearer | 401none | status | timeout | fatal
	Err        string `json:"err,omitempty"` // which error value (timeout / fatal)
	Status     int    `json:"status,omitempty"`
	RetryAfter string `json:"retry_after,omitempty"`
	// ReadPermille: how much of the request body the "server" consumes before
	// it answers: -1 everything, otherwise that many thousandths.
	ReadPermille int `json:"read_permille"`
}

func (o outcome) String() string {
	s := o.Kind
	if o.Err != "" {
		s += ":" + o.Err
	}
	if o.Kind == "status" {
		s = fmt.Sprint(o.Status)
		if o.RetryAfter != "" {
			s += "+RA"
		}
	}
	if o.ReadPermille >= 0 {
		s += fmt.Sprintf("/r%d", o.ReadPermille)
	}
	return s
}

// class is the statement's classification of an outcome.
func (o outcome) retryable() bool {
	switch o.Kind {
	case "timeout":
		return true
	case "status":
		return o.Status == 408 || o.Status == 429 || o.Status >= 500
	}
	return false
}

func (o outcome) isError() bool {
	switch o.Kind {
	case "timeout", "fatal":
		return true
	}
	return false
}

// timeoutErr is a net.Error reporting a timeout.
type timeoutErr struct{ n int }

func (e *timeoutErr) Error() string   { return fmt.Sprintf("scripted i/o timeout #%d", e.n) }
func (e *timeoutErr) Timeout() bool   { return true }
func (e *timeoutErr) Temporary() bool { return true }

var _ net.Error = (*timeoutErr)(nil)

// Error values the scripted transport can fail with. The statement's
// retryable failures are timeouts; every other transport error is final,
// whatever it says about being "temporary".
var (
	// net.Error values reporting Timeout() (the last one only through errors.As)
	timeoutVariants = []string{"net-timeout", "net-timeout", "url-timeout", "etimedout", "op-deadline", "wrapped-timeout"}
	// everything else
	fatalVariants = []string{"plain", "op-refused", "op-emfile-temporary", "dns-temporary", "dns-notfound", "url-dns-temporary",
		"wrapped-dns-temporary", "emfile-temporary", "econnreset", "op-econnreset", "eof", "unexpected-eof", "wrapped-unexpected-eof", "url-plain", "addr-error"}
)

// timeoutIsNetError: the library sees the timeout through a plain type
// assertion to net.Error (a %w-wrapped one is a timeout only via errors.As;
// retrying it or not are both within the statement).
func timeoutIsNetError(variant string) bool { return variant != "wrapped-timeout" }

func mkErr(kind, variant string, n int) error {
	if kind == "timeout" {
		switch variant {
		case "url-timeout":
			return &url.Error{Op: "Put", URL: "http://" + targetHost + "/", Err: &timeoutErr{n}}
		case "etimedout":
			return &net.OpError{Op: "dial", Net: "tcp", Err: os.NewSyscallError("connect", syscall.ETIMEDOUT)}
		case "op-deadline":
			return &net.OpError{Op: "read", Net: "tcp", Err: os.ErrDeadlineExceeded}
		case "wrapped-timeout":
			return fmt.Errorf("scripted #%d: %w", n, &timeoutErr{n})
		}
		return &timeoutErr{n}
	}
	dnsTemp := &net.DNSError{Err: "server misbehaving", Name: targetHost, IsTemporary: true}
	switch variant {
	case "op-refused":
		return &net.OpError{Op: "dial", Net: "tcp", Err: os.NewSyscallError("connect", syscall.ECONNREFUSED)}
	case "op-emfile-temporary":
		return &net.OpError{Op: "dial", Net: "tcp", Err: os.NewSyscallError("socket", syscall.EMFILE)}
	case "dns-temporary":
		return dnsTemp
	case "dns-notfound":
		return &net.DNSError{Err: "no such host", Name: targetHost, IsNotFound: true}
	case "url-dns-temporary":
		return &url.Error{Op: "Put", URL: "http://" + targetHost + "/", Err: dnsTemp}
	case "wrapped-dns-temporary":
		return fmt.Errorf("scripted #%d: %w", n, dnsTemp)
	case "emfile-temporary":
		return syscall.EMFILE
	case "econnreset":
		return syscall.ECONNRESET
	case "op-econnreset":
		return &net.OpError{Op: "read", Net: "tcp", Err: os.NewSyscallError("read", syscall.ECONNRESET)}
	case "eof":
		return io.EOF
	case "unexpected-eof":
		return io.ErrUnexpectedEOF
	case "wrapped-unexpected-eof":
		return fmt.Errorf("scripted #%d: %w", n, io.ErrUnexpectedEOF)
	case "url-plain":
		return &url.Error{Op: "Put", URL: "http://" + targetHost + "/", Err: fmt.Errorf("scripted transport failure #%d", n)}
	case "addr-error":
		return &net.AddrError{Err: "scripted bad address", Addr: targetHost}
	}
	return fmt.Errorf("scripted transport failure #%d", n)
}

// respBody is a response body that remembers what the client did to it.
type respBody struct {
	r      *bytes.Reader
	closed atomic.Bool
	read   atomic.Int64
}

func (b *respBody) Read(p []byte) (int, error) {
	if b.closed.Load() {
		return 0, errors.New("read on closed response body")
	}
	n, err := b.r.Read(p)
	b.read.Add(int64(n))
	return n, err
}
func (b *respBody) Close() error { b.closed.Store(true); return nil }

// attempt is one request seen by the scripted base transport.
type attempt struct {
	Seq      int    `json:"seq"`  // index in the call's event log
	Send     int    `json:"send"` // which RoundTrip of the retrying transport
	InSend   int    `json:"in_send"`
	Target   bool   `json:"target"`
	Method   string `json:"method"`
	URL      string `json:"url"`
	AuthKind string `json:"auth,omitempty"`
	Outcome  string `json:"outcome"`

	BodyNil     bool   `json:"body_nil,omitempty"`
	WantRead    int    `json:"want_read"`    // -1: to EOF
	GotLen      int    `json:"got_len"`      // bytes received
	GotOK       bool   `json:"got_ok"`       // received bytes are the expected prefix
	SawEOF      bool   `json:"saw_eof"`      // the body ended
	ReadErr     string `json:"read_err,omitempty"`
	ContentLen  int64  `json:"content_length"`
	BodyDigest  string `json:"-"`
	rawBody     []byte // token requests only
	out         outcome
	err         error
	resp        *http.Response
	body        *respBody
	tStart      time.Time
	tEnd        time.Time
	ctxDoneAtIn bool
}

// policyCall is one consultation of the retry policy.
type policyCall struct {
	Send     int           `json:"send"`
	Attempt  int           `json:"attempt"`
	Duration time.Duration `json:"duration"`
	Err      string        `json:"err,omitempty"`
	Real     time.Duration `json:"real"` // what the generic policy computed
	Status     int    `json:"status,omitempty"`
	RetryAfter string `json:"retry_after,omitempty"`
}

// recorder holds the event log of one call and the knobs of the script.
type recorder struct {
	mu sync.Mutex

	targetScript []outcome
	tokenScript  []outcome
	tpos, kpos   int

	original    []byte // the body the caller handed over (current call)
	bodyNone    bool
	attempts    []*attempt
	policyCalls []policyCall
	send        int
	inSend      int
	nTimeout    int

	// registry emulation for the repository phase (nil otherwise)
	handle func(rec *recorder, a *attempt, req *http.Request, body []byte) *http.Response
	// bodyFor returns the expected body of a target request (repository phase)
	bodyFor func(req *http.Request) (want []byte, judged bool)

	expBackoff bool // the policy's Backoff is retry.ExponentialBackoff
	maxRetry   int
	minWait    time.Duration
	maxWait  time.Duration

	// cancellation
	cancel         context.CancelFunc
	cancelMode     string // "" | "attempt" | "pause"
	cancelAtCand   int    // fire on this candidate (0-based)
	cands          int
	cancelFired    atomic.Bool // cancel() has returned
	cancelArmed    bool        // cancel requested in the current attempt
	cancelSeq      int         // Seq of the attempt during/after which the context was cancelled
	cancelDelay    time.Duration
	cancelNoPause  bool
	replayableBody bool
}

func (rec *recorder) resetCall(original []byte, none, replayable bool) {
	rec.mu.Lock()
	rec.original = original
	rec.bodyNone = none
	rec.replayableBody = replayable
	rec.attempts = nil
	rec.policyCalls = nil
	rec.send = 0
	rec.inSend = 0
	rec.mu.Unlock()
}

func (rec *recorder) attemptCount() int {
	rec.mu.Lock()
	defer rec.mu.Unlock()
	return len(rec.attempts)
}

// sendMarker sits between http.Client and the retrying transport and marks
// the beginning of every send.
type sendMarker struct {
	rec  *recorder
	next http.RoundTripper
}

func (s *sendMarker) RoundTrip(req *http.Request) (*http.Response, error) {
	s.rec.mu.Lock()
	s.rec.send++
	s.rec.inSend = 0
	s.rec.mu.Unlock()
	return s.next.RoundTrip(req)
}

// recPolicy wraps the generic policy: it records every decision and, once the
// script has decided to cancel the context, stretches the pause to an hour so
// that the outcome of the cancellation does not depend on timing.
type recPolicy struct {
	rec   *recorder
	inner retry.Policy
}

const longPause = time.Hour

func (p *recPolicy) Retry(attempt int, resp *http.Response, err error) (time.Duration, error) {
	d, perr := p.inner.Retry(attempt, resp, err)
	rec := p.rec
	rec.mu.Lock()
	pc := policyCall{Send: rec.send, Attempt: attempt, Duration: d, Real: d}
	if resp != nil {
		pc.Status, pc.RetryAfter = resp.StatusCode, resp.Header.Get("Retry-After")
	}
	if perr != nil {
		pc.Err = perr.Error()
	}
	if d > rec.maxWait && perr == nil {
		// out of bounds (recorded in Real and judged later); do not really
		// sleep that long
		d = rec.maxWait
		pc.Duration = d
	}
	if d >= 0 && perr == nil && rec.cancelArmed {
		switch rec.cancelMode {
		case "attempt":
			// the context is already cancelled
			d = longPause
		case "pause":
			d = longPause
			cancel, delay := rec.cancel, rec.cancelDelay
			go func() {
				if delay > 0 {
					time.Sleep(delay)
				}
				cancel()
				rec.cancelFired.Store(true)
			}()
		}
		rec.cancelArmed = false
		pc.Duration = d
	} else if rec.cancelArmed {
		// no pause follows: the cancellation is not "during a pause"; unjudged
		rec.cancelArmed = false
		rec.cancelNoPause = true
	}
	rec.policyCalls = append(rec.policyCalls, pc)
	rec.mu.Unlock()
	return d, perr
}

// base is the scripted base transport (the "registry" and the token service).
type base struct{ rec *recorder }

func authKind(h string) string {
	if i := strings.IndexByte(h, ' '); i > 0 {
		return h[:i]
	}
	return h
}

func (b *base) RoundTrip(req *http.Request) (*http.Response, error) {
	rec := b.rec
	rec.mu.Lock()
	a := &attempt{
		Seq: len(rec.attempts), Send: rec.send, InSend: rec.inSend,
		Target: req.URL.Host == targetHost, Method: req.Method, URL: req.URL.String(),
		AuthKind: authKind(req.Header.Get("Authorization")), ContentLen: req.ContentLength,
		tStart: time.Now(), ctxDoneAtIn: req.Context().Err() != nil,
	}
	rec.inSend++
	rec.attempts = append(rec.attempts, a)
	var out outcome
	if a.Target {
		if rec.tpos < len(rec.targetScript) {
			out = rec.targetScript[rec.tpos]
		} else {
			out = outcome{Kind: "ok", ReadPermille: -1}
		}
		rec.tpos++
	} else {
		if rec.kpos < len(rec.tokenScript) {
			out = rec.tokenScript[rec.kpos]
		} else {
			out = outcome{Kind: "ok", ReadPermille: -1}
		}
		rec.kpos++
	}
	a.out = out
	a.Outcome = out.String()
	want := rec.original
	judged := true
	if a.Target && rec.bodyFor != nil {
		want, judged = rec.bodyFor(req)
	}
	handle := rec.handle
	rec.mu.Unlock()

	// consume the request body the way the script says
	var got []byte
	if req.Body == nil || req.Body == http.NoBody {
		a.BodyNil = true
		a.WantRead = -1
		a.SawEOF = true
	} else {
		limit := -1
		if out.ReadPermille >= 0 && out.Kind != "ok" {
			if a.Target {
				limit = len(want) * out.ReadPermille / 1000
			}
		}
		a.WantRead = limit
		var buf bytes.Buffer
		var err error
		if limit < 0 {
			_, err = io.Copy(&buf, req.Body)
			a.SawEOF = err == nil
		} else {
			_, err = io.CopyN(&buf, req.Body, int64(limit))
			if err == io.EOF {
				a.SawEOF = true
				err = nil
			}
		}
		if err != nil {
			a.ReadErr = err.Error()
		}
		req.Body.Close()
		got = buf.Bytes()
	}
	a.GotLen = len(got)
	if a.Target {
		if !judged {
			a.GotOK = true
		} else if a.WantRead < 0 {
			a.GotOK = bytes.Equal(got, want) && a.ReadErr == ""
		} else {
			n := a.WantRead
			if n > len(want) {
				n = len(want)
			}
			a.GotOK = bytes.Equal(got, want[:n]) && a.ReadErr == ""
		}
	} else {
		a.rawBody = append([]byte(nil), got...)
		a.GotOK = true
	}

	// cancellation scheduled by the script
	rec.mu.Lock()
	if rec.cancelMode != "" && !rec.cancelFired.Load() && !rec.cancelArmed && rec.cancelSeq < 0 {
		pauseFollows := out.retryable() && a.InSend < rec.maxRetry && (a.BodyNil || !a.Target || rec.replayableBody)
		if pauseFollows {
			if rec.cands == rec.cancelAtCand {
				rec.cancelArmed = true
				rec.cancelSeq = a.Seq
				if rec.cancelMode == "attempt" {
					rec.cancel()
					rec.cancelFired.Store(true)
				}
			}
			rec.cands++
		}
	}
	rec.mu.Unlock()

	defer func() { a.tEnd = time.Now() }()
	mk := func(status int, hdr http.Header, body string) *http.Response {
		rb := &respBody{r: bytes.NewReader([]byte(body))}
		if hdr == nil {
			hdr = http.Header{}
		}
		hdr.Set("X-Attempt", fmt.Sprint(a.Seq))
		resp := &http.Response{
			StatusCode: status, Status: fmt.Sprintf("%d %s", status, http.StatusText(status)),
			Proto: "HTTP/1.1", ProtoMajor: 1, ProtoMinor: 1,
			Header: hdr, Body: rb, ContentLength: int64(len(body)), Request: req,
		}
		a.resp, a.body = resp, rb
		return resp
	}
	switch out.Kind {
	case "timeout", "fatal":
		rec.mu.Lock()
		rec.nTimeout++
		n := rec.nTimeout
		rec.mu.Unlock()
		a.err = mkErr(out.Kind, out.Err, n)
		return nil, a.err
	case "401basic":
		return mk(401, http.Header{"Www-Authenticate": {`Basic realm="scripted"`}}, `{"errors":[{"code":"UNAUTHORIZED"}]}`), nil
	case "401bearer":
		return mk(401, http.Header{"Www-Authenticate": {`Bearer realm="` + realmURL + `",service="svc",scope="repository:foo:pull,push"`}}, `{"errors":[{"code":"UNAUTHORIZED"}]}`), nil
	case "401none":
		return mk(401, http.Header{"Www-Authenticate": {`Negotiate`}}, ``), nil
	case "status":
		h := http.Header{}
		if out.RetryAfter != "" {
			h.Set("Retry-After", out.RetryAfter)
		}
		return mk(out.Status, h, `{"errors":[{"code":"SCRIPTED","message":"scripted"}]}`), nil
	}
	// success
	if !a.Target {
		return mk(200, http.Header{"Content-Type": {"application/json"}}, fmt.Sprintf(`{"token":"tok-%d","access_token":"tok-%d"}`, a.Seq, a.Seq)), nil
	}
	if handle != nil {
		if resp := handle(rec, a, req, got); resp != nil {
			resp.Header.Set("X-Attempt", fmt.Sprint(a.Seq))
			resp.Request = req
			rb := &respBody{r: bytes.NewReader(nil)}
			resp.Body = rb
			a.resp, a.body = resp, rb
			return resp, nil
		}
	}
	return mk(200, nil, "ok"), nil
}

// ---- request bodies ----

// oneShot is a reader that the net/http package cannot rewind; it fails when
// read after Close like a file or a network stream would.
type oneShot struct {
	r      io.Reader
	closed bool
}

func (o *oneShot) Read(p []byte) (int, error) {
	if o.closed {
		return 0, errors.New("one-shot body read after close")
	}
	return o.r.Read(p)
}
func (o *oneShot) Close() error { o.closed = true; return nil }

// plainReader hides every method but Read.
type plainReader struct{ io.Reader }

var bodyKinds = []string{"none", "bytes", "strings", "buffer", "custom-getbody", "flaky-getbody", "oneshot", "oneshot-cl", "oneshot-nopcloser", "oneshot-reader"}

func isOneShot(kind string) bool { return strings.HasPrefix(kind, "oneshot") }

// replayableKind: the stack is able to produce the body again.
func replayableKind(kind string) bool {
	switch kind {
	case "bytes", "strings", "buffer", "custom-getbody":
		return true
	}
	return false
}

// newRequest builds a request whose body is of the given kind.
func newRequest(ctx context.Context, method, url, kind string, data []byte, rng *rand.Rand) (*http.Request, error) {
	var body io.Reader
	switch kind {
	case "none":
		body = nil
	case "bytes":
		body = bytes.NewReader(data)
	case "strings":
		body = strings.NewReader(string(data))
	case "buffer":
		body = bytes.NewBuffer(append([]byte(nil), data...))
	case "custom-getbody", "flaky-getbody", "oneshot", "oneshot-cl":
		body = &oneShot{r: bytes.NewReader(data)}
	case "oneshot-nopcloser":
		body = io.NopCloser(&oneShot{r: bytes.NewReader(data)})
	case "oneshot-reader":
		body = plainReader{bytes.NewReader(data)}
	default:
		return nil, fmt.Errorf("unknown body kind %q", kind)
	}
	req, err := http.NewRequestWithContext(ctx, method, url, body)
	if err != nil {
		return nil, err
	}
	switch kind {
	case "custom-getbody":
		req.ContentLength = int64(len(data))
		req.GetBody = func() (io.ReadCloser, error) { return &oneShot{r: bytes.NewReader(data)}, nil }
	case "flaky-getbody":
		req.ContentLength = int64(len(data))
		failAt := rng.IntN(3)
		calls := 0
		req.GetBody = func() (io.ReadCloser, error) {
			calls++
			if calls > failAt {
				return nil, errors.New("scripted GetBody failure")
			}
			return &oneShot{r: bytes.NewReader(data)}, nil
		}
	case "oneshot-cl":
		req.ContentLength = int64(len(data))
	}
	return req, nil
}

// payload makes size pseudo-random bytes (no repetition that could hide a
// shifted resend).
func payload(rng *rand.Rand, size int) []byte {
	b := make([]byte, size)
	var x uint64
	for i := range b {
		if i%8 == 0 {
			x = rng.Uint64()
		}
		b[i] = byte(x)
		x >>= 8
	}
	return b
}
