package main

import (
	"bytes"
	"fmt"
	"io"
	"net/http"
	"strconv"
	"strings"
	"sync/atomic"

	"github.com/opencontainers/go-digest"
	ocispec "github.com/opencontainers/image-spec/specs-go/v1"
	"oras.land/oras-go/v2/verifharness/evidence"
	"oras.land/oras-go/v2/verifharness/gen"
	"oras.land/oras-go/v2/verifharness/regmodel"
	"oras.land/oras-go/v2/verifharness/worker"
)

const hdrDCD = "Docker-Content-Digest"

// verdict classes of a (operation, corrupted field) pair
const (
	mustFail = "must-fail" // the field contradicts what was requested: the call or the verified read of its body must fail
	noWrong  = "no-wrong"  // nothing the client can compare: it may succeed, but only with the truth
	unjudged = "unjudged"
)

type corrCase struct {
	op       string
	corr     string
	method   string // method of the response that gets corrupted
	kind     string // endpoint class of that response
	ranged   bool   // only a response to a request carrying Range
	absent   bool   // the target is not in the registry
	class    string
	exemptMT bool
	exemptDG bool
	exemptSZ bool
}

var readOps = []string{"fetch-blob", "fetch-manifest", "fetchref-digest", "fetchref-tag", "fetchref-blob", "resolve-digest", "resolve-tag", "resolve-blob", "exists-blob", "exists-manifest"}
var writeOps = []string{"push-manifest", "delete-blob", "delete-manifest", "mount", "tag"}
var digestCorruptions = []string{"dcd-other", "dcd-malformed", "dcd-other-alg"}

var contentCorruptions = []string{"dcd-other", "dcd-other-alg", "dcd-malformed", "cl-plus", "cl-minus", "body-trunc", "body-extend", "body-flip", "body-empty", "body-one", "ct-other", "ct-malformed", "ct-dropped", "ct-empty",
	"status-404", "status-500", "status-201", "status-206", "status-403"}

func isTagOp(op string) bool    { return strings.HasSuffix(op, "-tag") }
func isByDesc(op string) bool   { return op == "fetch-blob" || op == "fetch-manifest" }
func isResolve(op string) bool  { return strings.HasPrefix(op, "resolve-") }
func isExists(op string) bool   { return strings.HasPrefix(op, "exists-") }
func isFetchRef(op string) bool { return strings.HasPrefix(op, "fetchref-") }
func isBlobOp(op string) bool   { return strings.HasSuffix(op, "-blob") }

// classify writes down, from the property statement, what a corruption of one
// field of one response obliges the client to do.
func classify(c *corrCase, prof regmodel.Profile) {
	c.class = noWrong
	headerOnGetIgnored := isFetchRef(c.op) && prof.UnknownLength && c.method == http.MethodGet
	switch c.corr {
	case "dcd-other", "dcd-other-alg", "dcd-malformed":
		switch {
		case isTagOp(c.op):
			// no digest was requested. HEAD: the header is all there is to know.
			if c.corr != "dcd-malformed" && (isResolve(c.op) || c.method == http.MethodHead) {
				c.exemptDG = true
				if isResolve(c.op) {
					c.class = unjudged
				}
			}
		case headerOnGetIgnored:
			// the library takes the descriptor from a HEAD when GET has no length
		default:
			c.class = mustFail
		}
	case "cl-plus", "cl-minus", "body-trunc", "body-extend", "body-flip", "body-empty", "body-one":
		switch {
		case isResolve(c.op):
			c.exemptSZ = true // HEAD: the length header is all there is to know
		case isTagOp(c.op) && !prof.DigestHeader:
			c.class = unjudged // neither digest nor length to compare the body with
		default:
			c.class = mustFail
		}
	case "ct-other", "ct-malformed", "ct-dropped", "ct-empty":
		if c.op == "fetch-manifest" {
			c.class = mustFail
		} else if (c.corr == "ct-dropped" || c.corr == "ct-empty") && c.kind == "manifest" {
			// no media type at all: the client may fail, but a manifest described
			// with a made-up type contradicts the registry (no exemption)
		} else {
			c.exemptMT = true // the content type of something resolved by reference has nothing to be compared with
		}
	case "absent-200", "absent-200-claim":
		// a 200 for content that is not there: by descriptor or digest the body
		// cannot match; a HEAD or a tag gives the client nothing to compare
		c.class = unjudged
		if isByDesc(c.op) || c.op == "fetchref-digest" || c.op == "fetchref-blob" {
			c.class = mustFail
		}
	}
	if c.absent && !strings.HasPrefix(c.corr, "absent-") {
		c.class = noWrong // any success is wrong: the truth is "not there"
	}
}

func runCorrupt(i int) worker.Result {
	seed := evidence.New("C13", "exploration").Seed
	rng := evidence.RandFor(seed, "c13-corrupt", i)
	var res worker.Result
	v, err := newEnv(rng, &res, envOpts{nodes: 5 + rng.IntN(6), plainOpts: true, bigBlob: rng.IntN(3) == 0})
	if err != nil {
		res.Violate("harness:setup", err.Error(), nil)
		return res
	}
	defer v.close()

	// state set up directly in the model: most nodes present
	var manifests, blobs []*node
	presentBlob, presentMan := map[digest.Digest]bool{}, map[digest.Digest]bool{}
	for _, n := range v.nodes {
		if n.kind == "custom" {
			continue
		}
		asManifest := v.routeManifest(n.desc.MediaType)
		if rng.IntN(6) != 0 {
			if asManifest {
				presentMan[n.desc.Digest] = true
				v.reg.PutManifest(repoName, n.desc.MediaType, n.bytes)
			} else {
				presentBlob[n.desc.Digest] = true
				v.reg.PutBlob(repoName, n.bytes)
			}
		}
		if asManifest {
			manifests = append(manifests, n)
		} else {
			blobs = append(blobs, n)
		}
	}
	isPresent := func(n *node) bool {
		if v.routeManifest(n.desc.MediaType) {
			return presentMan[n.desc.Digest]
		}
		return presentBlob[n.desc.Digest]
	}
	if len(manifests) == 0 || len(blobs) == 0 {
		res.Violate("harness:pool", "no manifests or blobs generated", nil)
		return res
	}

	c := &corrCase{}
	if rng.IntN(5) == 0 {
		c.op = writeOps[rng.IntN(len(writeOps))]
	} else if rng.IntN(9) == 0 {
		c.op = "seek"
	} else {
		c.op = readOps[rng.IntN(len(readOps))]
	}
	pool := manifests
	if isBlobOp(c.op) || c.op == "seek" || c.op == "mount" {
		pool = blobs
	}
	pickFrom := func(want bool) *node {
		var cs []*node
		for _, n := range pool {
			if isPresent(n) == want {
				cs = append(cs, n)
			}
		}
		if len(cs) == 0 {
			return nil
		}
		return cs[rng.IntN(len(cs))]
	}
	wantAbsent := false
	switch c.op {
	case "fetch-blob", "fetch-manifest", "fetchref-digest", "fetchref-blob":
		wantAbsent = rng.IntN(7) == 0
	case "push-manifest", "mount":
		wantAbsent = true
	case "tag":
		v.reg.Profile.StrictRefs = false
	}
	n := pickFrom(!wantAbsent)
	if n == nil {
		n = pickFrom(wantAbsent)
		if n == nil {
			res.Violate("harness:pool", "empty pool", nil)
			return res
		}
		wantAbsent = !wantAbsent
	}
	c.absent = wantAbsent
	if c.op == "seek" && len(n.bytes) < 2 {
		c.op = "fetch-blob"
	}
	if c.op == "mount" {
		// a blob the sibling repository holds and the registry mounts
		v.prof.MountOK = true
		v.reg.Profile.MountOK = true
		v.reg.PutBlob(srcName, n.bytes)
		v.src[n.desc.Digest] = n.bytes
		if isPresent(n) {
			v.reg.WithLock(func() { delete(v.reg.Repos[repoName].Blobs, n.desc.Digest) })
			presentBlob[n.desc.Digest] = false
		}
		c.absent = false
	}
	if c.op == "push-manifest" {
		if isPresent(n) {
			v.reg.WithLock(func() { delete(v.reg.Repos[repoName].Manifests, n.desc.Digest) })
			presentMan[n.desc.Digest] = false
		}
		v.reg.Profile.StrictRefs = false
		c.absent = false
	}
	if c.absent && (isExists(c.op) || c.op == "tag" || strings.HasPrefix(c.op, "delete-")) {
		// these need the target in place
		if v.routeManifest(n.desc.MediaType) {
			v.reg.PutManifest(repoName, n.desc.MediaType, n.bytes)
			presentMan[n.desc.Digest] = true
		} else {
			v.reg.PutBlob(repoName, n.bytes)
			presentBlob[n.desc.Digest] = true
		}
		c.absent = false
	}
	tag := "v1"
	if isTagOp(c.op) {
		v.reg.PutManifest(repoName, n.desc.MediaType, n.bytes, tag)
		presentMan[n.desc.Digest] = true
		c.absent = false
	}

	// which response is corrupted, and how
	c.kind = "manifest"
	if isBlobOp(c.op) || c.op == "seek" {
		c.kind = "blob"
	}
	switch {
	case isResolve(c.op), isExists(c.op):
		c.method = http.MethodHead
	case isFetchRef(c.op):
		c.method = http.MethodGet
		if v.prof.UnknownLength && rng.IntN(2) == 0 {
			c.method = http.MethodHead
		}
	case c.op == "push-manifest", c.op == "tag":
		c.method = http.MethodPut
	case c.op == "delete-blob", c.op == "delete-manifest":
		c.method = http.MethodDelete
	case c.op == "mount":
		c.method, c.kind = http.MethodPost, "upload"
	default:
		c.method = http.MethodGet
	}
	switch {
	case c.op == "seek":
		c.ranged = true
		c.corr = []string{"range-ignored", "range-ignored", "status-416", "status-500", "status-200-partial"}[rng.IntN(5)]
	case isExists(c.op):
		c.corr = digestCorruptions[rng.IntN(len(digestCorruptions))]
		c.class = mustFail
	case c.absent:
		c.corr = []string{"absent-200", "absent-200-claim"}[rng.IntN(2)]
	case c.method == http.MethodGet || c.method == http.MethodHead:
		for {
			c.corr = contentCorruptions[rng.IntN(len(contentCorruptions))]
			if c.method == http.MethodHead && strings.HasPrefix(c.corr, "body-") {
				continue
			}
			break
		}
	default:
		c.corr = digestCorruptions[rng.IntN(len(digestCorruptions))]
		c.class = mustFail
	}
	if c.class == "" {
		classify(c, v.prof)
	}
	variant := rng.IntN(1 << 16)

	var fired atomic.Int32
	var declared atomic.Int64
	declared.Store(-1)
	var armed atomic.Bool
	v.reg.After = func(rec *regmodel.Record, resp *regmodel.Response) {
		if !armed.Load() || rec.Method != c.method || rec.Kind != c.kind || rec.Repo != repoName {
			return
		}
		if c.ranged && rec.Header.Get("Range") == "" {
			return
		}
		if c.kind == "upload" && resp.Status != http.StatusCreated {
			return
		}
		if !fired.CompareAndSwap(0, 1) {
			return
		}
		corrupt(c, variant, n, resp)
		// the length the corrupted response declares (-1: none, chunked)
		switch cl := resp.Header.Get("Content-Length"); {
		case resp.Status != http.StatusOK:
			declared.Store(-1)
		case cl != "":
			if k, err := strconv.ParseInt(cl, 10, 64); err == nil {
				declared.Store(k)
			}
		case !resp.NoLength:
			declared.Store(int64(len(resp.Body)))
		}
	}

	res.Count("corruptions_tried", 1)
	armed.Store(true)
	outcome := v.runCorruptOp(c, n, tag)
	armed.Store(false)
	applied := fired.Load() == 1

	if _, viol := v.takeLog(); len(viol) > 0 {
		res.Violate("spec-request:corrupt:"+c.op, "request not allowed by the distribution specification: "+strings.Join(viol, " | "), v.corrWitness(c, n, outcome))
	}
	label := fmt.Sprintf("%s|%s|%s|D%vU%vG%v", c.op, c.corr, c.method, v.prof.DigestHeader, v.prof.UnknownLength, v.prof.Ranges)
	res.Key = label
	if !applied {
		res.Count("corruptions_not_reached", 1)
		return res
	}
	res.Count("corruptions_applied", 1)
	res.Observe("corruption_pairs", c.op+"|"+c.corr)
	if i%211 == 0 {
		res.Sample = v.corrWitness(c, n, outcome)
	}
	switch c.class {
	case unjudged:
		res.Count("corruptions_unjudged", 1)
		return res
	case mustFail:
		res.NT = true
		if !outcome.failed {
			res.Violate("contradiction-accepted:"+c.op+":"+c.corr, fmt.Sprintf("%s with %s on the %s response: the call and the verified read of its body both succeeded", c.op, c.corr, c.method), v.corrWitness(c, n, outcome))
		} else if dl := declared.Load(); isByDesc(c.op) && !c.absent && dl >= 0 && dl != n.desc.Size && outcome.callErr == "" {
			// the statement's own wording for this contradiction: a declared
			// length different from the requested descriptor's size makes the
			// CALL fail; handing out the body (which an unverified read would
			// take for the content) is not enough
			res.Violate("contradiction-accepted:"+c.op+":"+c.corr+":declared-length", fmt.Sprintf("%s of a %d-byte descriptor: the response declared Content-Length %d (%s) and the call returned a body instead of failing (only the verified read noticed: %s)", c.op, n.desc.Size, dl, c.corr, outcome.readErr), v.corrWitness(c, n, outcome))
		} else {
			res.Count("corruptions_detected", 1)
		}
	case noWrong:
		res.NT = true
		switch {
		case outcome.failed:
			res.Count("corruptions_detected", 1)
		case c.absent:
			res.Violate("wrong-result:"+c.op+":"+c.corr, fmt.Sprintf("%s of content the registry does not hold succeeded after %s", c.op, c.corr), v.corrWitness(c, n, outcome))
		case !outcome.matches(c, n, v):
			res.Violate("wrong-result:"+c.op+":"+c.corr, fmt.Sprintf("%s with %s on the %s response succeeded with a result different from the truth: %s", c.op, c.corr, c.method, outcome.what), v.corrWitness(c, n, outcome))
		default:
			res.Count("corruptions_harmless", 1)
		}
	}
	return res
}

func (v *env) corrWitness(c *corrCase, n *node, o corrOutcome) map[string]any {
	return map[string]any{"profile": profileLabel(v.prof), "op": c.op, "corruption": c.corr, "response": c.method + " " + c.kind, "class": c.class,
		"target": fmt.Sprintf("%s %s %dB absent=%v", n.desc.MediaType, short(n.desc.Digest), n.desc.Size, c.absent), "call_error": o.callErr, "read_error": o.readErr, "result": o.what}
}

// corrupt alters exactly one field of the prepared response.
func corrupt(c *corrCase, variant int, n *node, resp *regmodel.Response) {
	resp.Body = append([]byte{}, resp.Body...) // never touch the model's stored bytes
	switch c.corr {
	case "dcd-other":
		resp.Header.Set(hdrDCD, digest.FromString(fmt.Sprint("other", variant)).String())
	case "dcd-other-alg":
		// a well-formed digest of other content under another registered algorithm
		alg := []digest.Algorithm{digest.SHA512, digest.SHA384}[variant%2]
		resp.Header.Set(hdrDCD, alg.FromString(fmt.Sprint("other", variant)).String())
	case "dcd-malformed":
		resp.Header.Set(hdrDCD, []string{"sha256:zz", "notadigest", "sha256:" + strings.Repeat("a", 63), n.desc.Digest.String() + "0", "sha256-" + n.desc.Digest.Encoded()}[variant%5])
	case "cl-plus":
		resp.Header.Set("Content-Length", strconv.Itoa(len(resp.Body)+1+variant%3))
	case "cl-minus":
		if len(resp.Body) > 0 {
			resp.Header.Set("Content-Length", strconv.Itoa(len(resp.Body)-1-variant%min(3, len(resp.Body))))
		} else {
			resp.Header.Set("Content-Length", "1")
		}
	case "body-trunc":
		if len(resp.Body) > 0 {
			resp.Body = resp.Body[:len(resp.Body)-1-variant%min(3, len(resp.Body))]
		} else {
			resp.Body = []byte{'x'}
		}
	case "body-empty": // Content-Length: 0 with an empty body
		if len(resp.Body) > 0 {
			resp.Body = []byte{}
		} else {
			resp.Body = []byte{'x'}
		}
		resp.NoLength = false
	case "body-one": // Content-Length: 1 with a 1-byte body
		if len(resp.Body) != 1 {
			resp.Body = append([]byte{}, append(resp.Body, 'x')[0])
		} else {
			resp.Body = []byte("xy")
		}
		resp.NoLength = false
	case "body-extend":
		resp.Body = append(resp.Body, []byte(" \n}x")[variant%4])
	case "body-flip":
		if len(resp.Body) > 0 {
			resp.Body[variant%len(resp.Body)] ^= 1 << (variant % 7)
		} else {
			resp.Body = []byte{0}
		}
	case "ct-other":
		cur := resp.Header.Get("Content-Type")
		for k := 0; ; k++ {
			o := []string{gen.MTOCIManifest, gen.MTOCIIndex, gen.MTDockerManifest, "text/plain", gen.MTArtifactManifest}[(variant+k)%5]
			if o != cur {
				resp.Header.Set("Content-Type", o)
				break
			}
		}
	case "ct-dropped":
		resp.Header["Content-Type"] = []string{} // header not sent at all
	case "ct-empty":
		resp.Header.Set("Content-Type", "")
	case "ct-malformed":
		resp.Header.Set("Content-Type", []string{"application/;;", "/", "a/b; x", ";"}[variant%4])
	case "status-404", "status-500", "status-201", "status-206", "status-403", "status-416":
		resp.Status, _ = strconv.Atoi(strings.TrimPrefix(c.corr, "status-"))
	case "status-200-partial":
		resp.Status = 200 // the partial body under a plain 200
	case "range-ignored":
		resp.Status = 200
		resp.Body = append([]byte{}, n.bytes...)
		resp.Header.Del("Content-Range")
	case "absent-200", "absent-200-claim":
		resp.Status = 200
		mt := n.desc.MediaType
		if c.kind == "blob" {
			mt = mtOctet
		}
		resp.Header.Set("Content-Type", mt)
		if c.corr == "absent-200-claim" {
			resp.Header.Set(hdrDCD, n.desc.Digest.String())
		}
	}
}

type corrOutcome struct {
	failed  bool
	callErr string
	readErr string
	desc    *ocispec.Descriptor
	body    []byte
	what    string
}

func (o corrOutcome) matches(c *corrCase, n *node, v *env) bool {
	if o.body != nil && !bytes.Equal(o.body, n.bytes) {
		return false
	}
	if o.desc == nil {
		return true
	}
	mt := n.desc.MediaType
	if c.kind == "blob" {
		mt = mtOctet
	}
	if !c.exemptMT && o.desc.MediaType != mt {
		return false
	}
	if !c.exemptDG && o.desc.Digest != n.desc.Digest {
		return false
	}
	if !c.exemptSZ && o.desc.Size != n.desc.Size {
		return false
	}
	return true
}

func (v *env) runCorruptOp(c *corrCase, n *node, tag string) (o corrOutcome) {
	setErr := func(err error) {
		o.failed = true
		o.callErr = err.Error()
	}
	withBody := func(desc ocispec.Descriptor, rc io.ReadCloser, byRef bool) {
		if byRef {
			d := desc
			o.desc = &d
			o.what = fmt.Sprintf("descriptor %s %s %d", desc.MediaType, short(desc.Digest), desc.Size)
		}
		b, rerr := readVerified(rc, desc)
		if rerr != nil {
			o.failed = true
			o.readErr = rerr.Error()
			return
		}
		o.body = b
		if b == nil {
			o.body = []byte{}
		}
		if !bytes.Equal(b, n.bytes) {
			o.what += " body differs from the stored content"
		}
	}
	switch c.op {
	case "fetch-blob", "fetch-manifest":
		rc, err := v.repo.Fetch(ctx, n.desc)
		if err != nil {
			setErr(err)
			return
		}
		withBody(n.desc, rc, false)
	case "fetchref-digest", "fetchref-tag":
		ref := n.desc.Digest.String()
		if c.op == "fetchref-tag" {
			ref = tag
		}
		desc, rc, err := v.repo.FetchReference(ctx, ref)
		if err != nil {
			setErr(err)
			return
		}
		withBody(desc, rc, true)
	case "fetchref-blob":
		desc, rc, err := v.repo.Blobs().FetchReference(ctx, n.desc.Digest.String())
		if err != nil {
			setErr(err)
			return
		}
		withBody(desc, rc, true)
	case "resolve-digest", "resolve-tag", "resolve-blob":
		var desc ocispec.Descriptor
		var err error
		switch c.op {
		case "resolve-digest":
			desc, err = v.repo.Resolve(ctx, n.desc.Digest.String())
		case "resolve-tag":
			desc, err = v.repo.Resolve(ctx, tag)
		default:
			desc, err = v.repo.Blobs().Resolve(ctx, n.desc.Digest.String())
		}
		if err != nil {
			setErr(err)
			return
		}
		o.desc = &desc
		o.what = fmt.Sprintf("descriptor %s %s %d", desc.MediaType, short(desc.Digest), desc.Size)
	case "exists-blob", "exists-manifest":
		ok, err := v.repo.Exists(ctx, n.desc)
		if err != nil {
			setErr(err)
			return
		}
		o.what = fmt.Sprintf("Exists = %v", ok)
	case "tag":
		if err := v.repo.Tag(ctx, n.desc, "v2"); err != nil {
			setErr(err)
		}
	case "push-manifest":
		if err := v.repo.Push(ctx, n.desc, bytes.NewReader(n.bytes)); err != nil {
			setErr(err)
		}
	case "delete-blob", "delete-manifest":
		if err := v.repo.Delete(ctx, n.desc); err != nil {
			setErr(err)
		}
	case "mount":
		if err := v.repo.Mount(ctx, n.desc, srcName, nil); err != nil {
			setErr(err)
		}
	case "seek":
		rc, err := v.repo.Fetch(ctx, ocispec.Descriptor{MediaType: mtOctet, Digest: n.desc.Digest, Size: n.desc.Size})
		if err != nil {
			setErr(err)
			return
		}
		defer rc.Close()
		rs, ok := rc.(io.ReadSeeker)
		if !ok {
			o.failed = true
			o.callErr = "reader is not seekable"
			return
		}
		k := 1 + v.rng.Int64N(int64(len(n.bytes))-1)
		if _, err := rs.Seek(k, io.SeekStart); err != nil {
			setErr(err)
			return
		}
		rest, err := io.ReadAll(rs)
		if err != nil {
			o.failed = true
			o.readErr = err.Error()
			return
		}
		if !bytes.Equal(rest, n.bytes[k:]) {
			o.what = fmt.Sprintf("after Seek(%d) the reader delivered %d bytes that are not the content from that offset (%d bytes)", k, len(rest), int64(len(n.bytes))-k)
			o.body = append(append([]byte{}, n.bytes[:k]...), rest...) // differs from n.bytes
			if bytes.Equal(o.body, n.bytes) {
				o.body = rest
			}
		} else {
			o.body = n.bytes
		}
	}
	return
}
