package main

import (
	"bytes"
	"encoding/json"
	"fmt"
	"math/rand/v2"
	"net/http"
	"sort"
	"strings"
	"sync/atomic"

	"github.com/opencontainers/go-digest"
	ocispec "github.com/opencontainers/image-spec/specs-go/v1"
	"oras.land/oras-go/v2/registry/remote"
	"oras.land/oras-go/v2/verifharness/gen"
	"oras.land/oras-go/v2/verifharness/regmodel"
	"oras.land/oras-go/v2/verifharness/stores"
	"oras.land/oras-go/v2/verifharness/worker"
)

const (
	repoName = "test/repo"
	srcName  = "test/src"
	mtCustom = "application/vnd.test.manifest.v1+json"
	mtOctet  = "application/octet-stream"
)

// defaultManifestTypes is the documented default of Repository.ManifestMediaTypes
// (spelled out here, not taken from the library).
var defaultManifestTypes = []string{gen.MTDockerManifest, gen.MTDockerManifestList, gen.MTOCIManifest, gen.MTOCIIndex, gen.MTArtifactManifest}

// node is a piece of content the history works with, with what the oracle
// needs to know about it (parsed from its own bytes, never asked of the library).
type node struct {
	id       int
	kind     string
	desc     ocispec.Descriptor
	bytes    []byte
	json     bool                 // manifest-like JSON document
	children []ocispec.Descriptor // config, layers, blobs, manifests (not the subject)
	subject  *ocispec.Descriptor
	artType  string // artifact type a referrers listing shows for it
	annos    map[string]string
}

func parseNode(id int, kind string, desc ocispec.Descriptor, data []byte, manifestLike bool) *node {
	n := &node{id: id, kind: kind, desc: desc, bytes: data}
	if !manifestLike {
		return n
	}
	var doc struct {
		ArtifactType string               `json:"artifactType"`
		Config       *ocispec.Descriptor  `json:"config"`
		Layers       []ocispec.Descriptor `json:"layers"`
		Blobs        []ocispec.Descriptor `json:"blobs"`
		Manifests    []ocispec.Descriptor `json:"manifests"`
		Subject      *ocispec.Descriptor  `json:"subject"`
		Annotations  map[string]string    `json:"annotations"`
	}
	if json.Unmarshal(data, &doc) != nil {
		return n
	}
	n.json = true
	if doc.Config != nil {
		n.children = append(n.children, *doc.Config)
	}
	n.children = append(n.children, doc.Layers...)
	n.children = append(n.children, doc.Blobs...)
	n.children = append(n.children, doc.Manifests...)
	n.subject = doc.Subject
	n.artType = doc.ArtifactType
	if n.artType == "" && doc.Config != nil && desc.MediaType == gen.MTOCIManifest {
		n.artType = doc.Config.MediaType
	}
	if len(doc.Annotations) > 0 {
		n.annos = doc.Annotations
	}
	return n
}

func isForeignMT(mt string) bool {
	return strings.Contains(mt, "nondistributable") || strings.Contains(mt, "foreign")
}

// refEntry is one entry of a referrers listing.
type refEntry struct {
	MediaType    string            `json:"mediaType"`
	Digest       string            `json:"digest"`
	Size         int64             `json:"size"`
	ArtifactType string            `json:"artifactType,omitempty"`
	Annotations  map[string]string `json:"annotations,omitempty"`
}

func (e refEntry) key() string {
	if len(e.Annotations) == 0 {
		e.Annotations = nil
	}
	b, _ := json.Marshal(e) // map keys are sorted by encoding/json
	return string(b)
}

func entryOfDesc(d ocispec.Descriptor) refEntry {
	return refEntry{MediaType: d.MediaType, Digest: d.Digest.String(), Size: d.Size, ArtifactType: d.ArtifactType, Annotations: d.Annotations}
}

func (n *node) entry(storedMT string) refEntry {
	return refEntry{MediaType: storedMT, Digest: n.desc.Digest.String(), Size: n.desc.Size, ArtifactType: n.artType, Annotations: n.annos}
}

type expManifest struct {
	mt string
	n  *node
}

// expState is the oracle's own account of what the registry must hold, built
// only from the operations issued and the specification's semantics.
type expState struct {
	blobs     map[digest.Digest][]byte
	manifests map[digest.Digest]expManifest
	tags      map[string]digest.Digest
	// referrers tag schema (registries without the Referrers API): per subject
	// digest, the referrers the client-maintained index must list
	refIdx    map[digest.Digest]map[digest.Digest]refEntry
	hadIndex  map[digest.Digest]bool // an index was pushed for this subject at some time
	everIndex map[digest.Digest]bool // digests seen as referrers-tag targets
}

func newExp() *expState {
	return &expState{blobs: map[digest.Digest][]byte{}, manifests: map[digest.Digest]expManifest{}, tags: map[string]digest.Digest{},
		refIdx: map[digest.Digest]map[digest.Digest]refEntry{}, hadIndex: map[digest.Digest]bool{}, everIndex: map[digest.Digest]bool{}}
}

// env is everything one case works in.
type env struct {
	rng     *rand.Rand
	prof    regmodel.Profile
	h       *stores.Handle
	reg     *regmodel.Registry
	repo    *remote.Repository
	host    string
	nodes   []*node
	mmt     []string
	opts    string // option-set label
	tagMode bool   // registry without Referrers API: client maintains indexes
	skipGC  bool
	exp     *expState
	src     map[digest.Digest][]byte // sibling repository (mount source)
	res     *worker.Result
	trace   []string
	failed  bool
	kinds   map[string]bool
	bigrams map[string]bool
	lastOp  string
	subjOK  bool // a manifest with a subject was pushed successfully
	seenLog int
	chunkedPut bool
	// fault injection on range requests (Read/Seek scripts)
	faultArmed atomic.Int32 // 0: none, else the kind of fault the next range request meets
	faultFired atomic.Int32
	collision  bool // a pool manifest is byte-identical to a client-maintained referrers index
}

func (v *env) routeManifest(mt string) bool {
	list := v.mmt
	if len(list) == 0 {
		list = defaultManifestTypes
	}
	for _, m := range list {
		if m == mt {
			return true
		}
	}
	return false
}

func indexable(mt string) bool {
	return mt == gen.MTArtifactManifest || mt == gen.MTOCIManifest || mt == gen.MTOCIIndex
}

func referrersTag(d digest.Digest) string {
	return d.Algorithm().String() + "-" + d.Encoded()
}

func profileLabel(p regmodel.Profile) string {
	b := func(x bool) byte {
		if x {
			return '1'
		}
		return '0'
	}
	return fmt.Sprintf("R%cD%cG%cM%cU%cS%cE%cP%c|ps%d|n%c|ls%d|fm%d", b(p.ReferrersAPI), b(p.DigestHeader), b(p.Ranges), b(p.MountOK), b(p.UnknownLength),
		b(p.StrictRefs), b(p.EmptyLastPage), b(p.ReferrersPaged), p.PageSize, b(p.HonourN), p.LinkStyle, p.FilterMode)
}

func randomProfile(rng *rand.Rand) regmodel.Profile {
	p := regmodel.Profile{
		ReferrersAPI:   rng.IntN(2) == 0,
		DigestHeader:   rng.IntN(3) != 0,
		Ranges:         rng.IntN(3) != 0,
		MountOK:        rng.IntN(2) == 0,
		UnknownLength:  rng.IntN(4) == 0,
		HonourN:        rng.IntN(3) != 0,
		LinkStyle:      rng.IntN(5),
		FilterMode:     rng.IntN(3),
		StrictRefs:     rng.IntN(2) == 0,
		EmptyLastPage:  rng.IntN(3) == 0,
		ReferrersPaged: rng.IntN(2) == 0,
	}
	p.PageSize = []int{0, 0, 1, 2, 3, 5}[rng.IntN(6)]
	if !p.ReferrersAPI && p.UnknownLength && !p.DigestHeader {
		// Excluded combination: without the Referrers API the client reads its
		// own referrers index by tag; with neither a length on GET nor a digest
		// header it falls back to HEAD, which cannot name the digest (the
		// documented truth table), so every referrer push/delete/listing fails.
		p.DigestHeader = true
	}
	return p
}

// manifestPutOK: does a spec registry with this profile accept the manifest now?
func (v *env) manifestPutOK(n *node) bool {
	if !v.prof.StrictRefs {
		return true
	}
	for _, c := range n.children {
		if isForeignMT(c.MediaType) {
			continue
		}
		if _, ok := v.exp.blobs[c.Digest]; ok {
			continue
		}
		if _, ok := v.exp.manifests[c.Digest]; ok {
			continue
		}
		return false
	}
	return true
}

// applyManifestPut records an accepted manifest PUT by digest through the
// client's indexing path (Push / PushReference) or not (Tag).
func (v *env) applyManifestPut(n *node, mt string, indexing bool) {
	v.exp.manifests[n.desc.Digest] = expManifest{mt: mt, n: n}
	if n.subject != nil {
		v.subjOK = true
	}
	if indexing && v.tagMode && indexable(mt) && n.subject != nil {
		s := n.subject.Digest
		if v.exp.refIdx[s] == nil {
			v.exp.refIdx[s] = map[digest.Digest]refEntry{}
		}
		if _, ok := v.exp.refIdx[s][n.desc.Digest]; !ok {
			v.exp.refIdx[s][n.desc.Digest] = n.entry(mt)
			v.exp.hadIndex[s] = true
		}
	}
}

func (v *env) applyManifestDelete(d digest.Digest) {
	m, ok := v.exp.manifests[d]
	if !ok {
		return
	}
	delete(v.exp.manifests, d)
	for t, td := range v.exp.tags {
		if td == d {
			delete(v.exp.tags, t)
		}
	}
	if v.tagMode && indexable(m.mt) && m.n.subject != nil {
		if idx := v.exp.refIdx[m.n.subject.Digest]; idx != nil {
			delete(idx, d)
		}
	}
}

// expectedReferrers is what a referrers listing of d must contain.
func (v *env) expectedReferrers(d digest.Digest) map[string]int {
	out := map[string]int{}
	if v.tagMode {
		for _, e := range v.exp.refIdx[d] {
			out[e.key()]++
		}
		return out
	}
	for _, m := range v.exp.manifests {
		if m.n.json && m.n.subject != nil && m.n.subject.Digest == d {
			out[m.n.entry(m.mt).key()]++
		}
	}
	return out
}

// checkState compares the registry model's state with the oracle's account.
func (v *env) checkState() string {
	var problems []string
	bad := func(f string, a ...any) {
		if len(problems) < 6 {
			problems = append(problems, fmt.Sprintf(f, a...))
		}
	}
	v.reg.WithLock(func() {
		r := v.reg.Repos[repoName]
		if r == nil {
			r = &regmodel.Repo{}
		}
		for d, want := range v.exp.blobs {
			got, ok := r.Blobs[d]
			if !ok {
				bad("blob %s missing from the registry", short(d))
			} else if !bytes.Equal(got, want) {
				bad("blob %s stored with other bytes", short(d))
			}
		}
		for d := range r.Blobs {
			if _, ok := v.exp.blobs[d]; !ok {
				bad("unexpected blob %s in the registry", short(d))
			}
		}
		for d, want := range v.exp.manifests {
			got, ok := r.Manifests[d]
			if !ok {
				bad("manifest %s missing from the registry", short(d))
			} else if got.MediaType != want.mt || !bytes.Equal(got.Bytes, want.n.bytes) {
				bad("manifest %s stored as %s (%d bytes), want %s (%d bytes)", short(d), got.MediaType, len(got.Bytes), want.mt, len(want.n.bytes))
			}
		}
		// referrers tags
		current := map[digest.Digest]bool{}
		wantTags := map[string]digest.Digest{}
		for t, d := range v.exp.tags {
			wantTags[t] = d
		}
		if v.tagMode {
			subjects := map[digest.Digest]bool{}
			for s := range v.exp.refIdx {
				subjects[s] = true
			}
			for s := range v.exp.hadIndex {
				subjects[s] = true
			}
			for s := range subjects {
				tag := referrersTag(s)
				want := map[string]int{}
				for _, e := range v.exp.refIdx[s] {
					want[e.key()]++
				}
				target, tagged := r.Tags[tag]
				if len(want) == 0 && !(v.skipGC && v.exp.hadIndex[s]) {
					if tagged {
						bad("referrers tag %s still present although the subject has no referrers", tag[:19])
					}
					continue
				}
				if !tagged {
					bad("referrers tag %s missing (want %d referrers)", tag[:19], len(want))
					continue
				}
				wantTags[tag] = target
				current[target] = true
				if _, ok := v.exp.manifests[target]; ok {
					// Unjudged shape: the referrers index the client maintains is
					// byte-identical to a manifest of the pool (an index listing
					// just that referrer, no annotations). In a content-addressed
					// registry they are one object; removing the "old index" then
					// removes the user's manifest too — inherent to the tag schema.
					v.collision = true
				}
				m, ok := r.Manifests[target]
				if !ok {
					bad("referrers tag %s points to a missing manifest", tag[:19])
					continue
				}
				if m.MediaType != gen.MTOCIIndex {
					bad("referrers index stored as %s", m.MediaType)
				}
				var idx struct {
					Manifests []ocispec.Descriptor `json:"manifests"`
				}
				if err := json.Unmarshal(m.Bytes, &idx); err != nil {
					bad("referrers index is not JSON: %v", err)
					continue
				}
				got := map[string]int{}
				for _, d := range idx.Manifests {
					got[entryOfDesc(d).key()]++
				}
				if diff := diffBags(want, got); diff != "" {
					bad("referrers index of %s: %s", short(s), diff)
				}
			}
		}
		for d := range current {
			v.exp.everIndex[d] = true
		}
		for d := range r.Manifests {
			if _, ok := v.exp.manifests[d]; ok {
				continue
			}
			if current[d] {
				continue
			}
			if v.skipGC && v.exp.everIndex[d] {
				continue // old index kept on request
			}
			bad("unexpected manifest %s in the registry", short(d))
		}
		for t, d := range wantTags {
			if got, ok := r.Tags[t]; !ok {
				bad("tag %q missing", t)
			} else if got != d {
				bad("tag %q -> %s, want %s", t, short(got), short(d))
			}
		}
		for t := range r.Tags {
			if _, ok := wantTags[t]; !ok {
				bad("unexpected tag %q", t)
			}
		}
		// the mount source must not change
		s := v.reg.Repos[srcName]
		n := 0
		if s != nil {
			n = len(s.Blobs)
			if len(s.Manifests) != 0 || len(s.Tags) != 0 {
				bad("source repository gained manifests or tags")
			}
		}
		if n != len(v.src) {
			bad("source repository has %d blobs, want %d", n, len(v.src))
		}
	})
	return strings.Join(problems, "; ")
}

func diffBags(want, got map[string]int) string {
	var out []string
	for k, n := range want {
		if got[k] != n {
			out = append(out, fmt.Sprintf("want %d× %s got %d×", n, k, got[k]))
		}
	}
	for k, n := range got {
		if _, ok := want[k]; !ok {
			out = append(out, fmt.Sprintf("unexpected %d× %s", n, k))
		}
	}
	sort.Strings(out)
	if len(out) > 4 {
		out = out[:4]
	}
	return strings.Join(out, "; ")
}

func short(d digest.Digest) string {
	s := d.String()
	if len(s) > 19 {
		return s[:19]
	}
	return s
}

// takeLog consumes the requests received since the last call: counts them per
// endpoint and reports requests the validator did not allow.
func (v *env) takeLog() (n int, violations []string) {
	log := v.reg.Log()
	for _, rec := range log[v.seenLog:] {
		n++
		v.res.Count("requests_validated", 1)
		v.res.Count("req_"+rec.Kind+"_"+rec.Method, 1)
		for _, bad := range rec.Violations {
			violations = append(violations, fmt.Sprintf("%s %s?%s: %s", rec.Method, rec.Path, rec.RawQuery, bad))
		}
	}
	v.seenLog = len(log)
	return
}

func (v *env) closeIdle() {
	if c, ok := v.repo.Client.(*http.Client); ok {
		c.CloseIdleConnections()
	}
}

var rangeFaults = []string{"", "503", "500", "dropped-connection", "200-full-body", "416", "404"}

// installRangeFaults makes the model answer one armed range request on a blob
// with a fault instead of 206.
func (v *env) installRangeFaults() {
	v.reg.Before = func(rec *regmodel.Record) *regmodel.Response {
		if rec.Kind != "blob" || rec.Method != http.MethodGet || rec.Header.Get("Range") == "" {
			return nil
		}
		k := v.faultArmed.Swap(0)
		if k == 0 {
			return nil
		}
		v.faultFired.Add(1)
		errResp := func(code int, errCode string) *regmodel.Response {
			h := http.Header{}
			h.Set("Content-Type", "application/json")
			return &regmodel.Response{Status: code, Header: h, Body: []byte(`{"errors":[{"code":"` + errCode + `","message":"injected"}]}`)}
		}
		switch rangeFaults[k] {
		case "503":
			return errResp(503, "UNAVAILABLE")
		case "500":
			return &regmodel.Response{Status: 500, Header: http.Header{}}
		case "dropped-connection":
			return &regmodel.Response{Drop: true}
		case "200-full-body":
			var data []byte
			v.reg.WithLock(func() {
				if r := v.reg.Repos[rec.Repo]; r != nil {
					data = append([]byte{}, r.Blobs[digest.Digest(rec.Ref)]...)
				}
			})
			h := http.Header{}
			h.Set("Content-Type", mtOctet)
			h.Set("Accept-Ranges", "bytes")
			return &regmodel.Response{Status: 200, Header: h, Body: data}
		case "416":
			return errResp(416, "RANGE_INVALID")
		}
		return errResp(404, "BLOB_UNKNOWN")
	}
}
