package main

import (
	"bytes"
	"errors"
	"fmt"
	"io"
	"strings"
)

// seekScript runs a random Read/Seek script on rs and, step by step, on a
// bytes.Reader over the true content; it returns the script and the first
// difference (returned offsets, bytes, EOF, refusal of a position before the start).
//
// Some position-changing Seeks meet an injected fault on their range request
// (non-206 status, 5xx, dropped connection). The statement does not say where
// a reader stands after a failed Seek, so the library is asked
// (Seek(0, SeekCurrent)): it must name either the position before the Seek or
// the requested one, and from then on every step must agree with the model
// placed at the position the library itself reported. The script then retries
// the same Seek or reads on.
func seekScript(v *env, rs io.ReadSeeker, truth []byte) (string, string) {
	rng, res := v.rng, v.res
	ref := bytes.NewReader(truth)
	size := int64(len(truth))
	var script []string
	done := func(problem string) (string, string) { return strings.Join(script, " "), problem }
	steps := 3 + rng.IntN(9)
	faultsLeft := 2
	var retry *[2]int64 // a Seek to repeat next
	needRead := false // a fault was injected and no bytes were looked at since
	for s := 0; s < steps || needRead || retry != nil; s++ {
		if retry != nil || (!(needRead && s >= steps-1) && rng.IntN(2) == 0) {
			var off int64
			var whence int
			if retry != nil {
				off, whence = retry[0], int(retry[1])
				retry = nil
			} else {
				whence = rng.IntN(3)
				if rng.IntN(25) == 0 {
					whence = 7
				}
				switch rng.IntN(6) {
				case 0:
					off = 0
				case 1:
					off = -1 - rng.Int64N(size+3)
				case 2:
					off = size + rng.Int64N(6) - 2
				default:
					off = rng.Int64N(size+2) - int64(whence/2)*size // SeekEnd gets mostly negative offsets
					if whence == io.SeekCurrent {
						off = rng.Int64N(2*size+2) - size
					}
				}
			}
			fault := 0
			if faultsLeft > 0 && rng.IntN(3) == 0 {
				fault = 1 + rng.IntN(len(rangeFaults)-1)
			}
			label := fmt.Sprintf("seek(%d,%d)", off, whence)
			if fault != 0 {
				label += "!" + rangeFaults[fault]
			}
			script = append(script, label)
			before, _ := ref.Seek(0, io.SeekCurrent)
			firedBefore := v.faultFired.Load()
			v.faultArmed.Store(int32(fault))
			a, aerr := rs.Seek(off, whence)
			v.faultArmed.Store(0)
			fired := v.faultFired.Load() != firedBefore
			res.Count("seek_steps", 1)
			b, berr := ref.Seek(off, whence)
			if fired && aerr != nil && berr == nil {
				// the range request met the fault and the Seek failed
				faultsLeft--
				res.Count("seek_faults_injected", 1)
				res.Observe("seek_fault_kinds", rangeFaults[fault])
				p, perr := rs.Seek(0, io.SeekCurrent)
				if perr != nil {
					return done(fmt.Sprintf("step %d: after a failed %s, Seek(0, SeekCurrent) fails: %v", s, label, perr))
				}
				if p != before && p != b {
					return done(fmt.Sprintf("step %d: after a failed %s the reader reports position %d, neither the old %d nor the requested %d", s, label, p, before, b))
				}
				if p == before {
					res.Count("failed_seek_kept_position", 1)
				} else {
					res.Count("failed_seek_took_requested_position", 1)
				}
				ref.Seek(p, io.SeekStart)
				script = append(script, fmt.Sprintf("pos=%d", p))
				if rng.IntN(2) == 0 {
					retry = &[2]int64{off, int64(whence)}
					if whence == io.SeekCurrent {
						// relative to the position reported now
						retry = &[2]int64{b - p, io.SeekCurrent}
					}
				}
				needRead = true // always look at the bytes after a failed Seek
				continue
			}
			if fired {
				res.Count("seek_faults_absorbed", 1) // e.g. the transport replayed the request on a fresh connection
			}
			if (aerr != nil) != (berr != nil) {
				return done(fmt.Sprintf("step %d Seek(%d,%d): error %v, bytes.Reader says %v", s, off, whence, aerr, berr))
			}
			if aerr == nil && a != b {
				return done(fmt.Sprintf("step %d Seek(%d,%d) = %d, bytes.Reader says %d", s, off, whence, a, b))
			}
			if aerr != nil {
				res.Count("seek_refusals", 1)
			}
			continue
		}
		k := 1 + rng.IntN(int(min(size+8, 6000)))
		if rng.IntN(4) == 0 {
			k = 1 + rng.IntN(16)
		}
		script = append(script, fmt.Sprintf("read(%d)", k))
		pa, pb := make([]byte, k), make([]byte, k)
		na, ea := io.ReadFull(rs, pa)
		nb, eb := io.ReadFull(ref, pb)
		res.Count("read_steps", 1)
		needRead = false
		if na != nb || !bytes.Equal(pa[:na], pb[:nb]) {
			return done(fmt.Sprintf("step %d Read(%d): got %d bytes, want %d; content equal=%v", s, k, na, nb, bytes.Equal(pa[:min(na, nb)], pb[:min(na, nb)])))
		}
		if (ea == nil) != (eb == nil) || errors.Is(ea, io.ErrUnexpectedEOF) != errors.Is(eb, io.ErrUnexpectedEOF) || (ea == io.EOF) != (eb == io.EOF) {
			return done(fmt.Sprintf("step %d Read(%d): error %v, bytes.Reader says %v", s, k, ea, eb))
		}
		if ea != nil {
			res.Count("read_eof_steps", 1)
		}
	}
	return done("")
}
