package main

import (
	"bytes"
	"errors"
	"fmt"
	"io"
	"math/rand/v2"
	"strings"

	"oras.land/oras-go/v2/verifharness/worker"
)

// seekScript runs a random Read/Seek script on rs and, step by step, on a
// bytes.Reader over the true content; it returns the script and the first
// difference (returned offsets, bytes, EOF, refusal of a position before the start).
func seekScript(rng *rand.Rand, rs io.ReadSeeker, truth []byte, res *worker.Result) (string, string) {
	ref := bytes.NewReader(truth)
	size := int64(len(truth))
	var script []string
	steps := 3 + rng.IntN(9)
	for s := 0; s < steps; s++ {
		if rng.IntN(2) == 0 {
			whence := rng.IntN(3)
			if rng.IntN(25) == 0 {
				whence = 7
			}
			var off int64
			switch rng.IntN(6) {
			case 0:
				off = 0
			case 1:
				off = -1 - rng.Int64N(size+3)
			case 2:
				off = size + rng.Int64N(6) - 2
			default:
				off = rng.Int64N(size+2) - int64(whence/2)*size // SeekEnd gets mostly negative offsets
				if whence == io.SeekCurrent {
					off = rng.Int64N(2*size+2) - size
				}
			}
			script = append(script, fmt.Sprintf("seek(%d,%d)", off, whence))
			a, aerr := rs.Seek(off, whence)
			b, berr := ref.Seek(off, whence)
			res.Count("seek_steps", 1)
			if (aerr != nil) != (berr != nil) {
				return strings.Join(script, " "), fmt.Sprintf("step %d Seek(%d,%d): error %v, bytes.Reader says %v", s, off, whence, aerr, berr)
			}
			if aerr == nil && a != b {
				return strings.Join(script, " "), fmt.Sprintf("step %d Seek(%d,%d) = %d, bytes.Reader says %d", s, off, whence, a, b)
			}
			if aerr != nil {
				res.Count("seek_refusals", 1)
			}
			continue
		}
		k := 1 + rng.IntN(int(min(size+8, 6000)))
		if rng.IntN(4) == 0 {
			k = 1 + rng.IntN(16)
		}
		script = append(script, fmt.Sprintf("read(%d)", k))
		pa, pb := make([]byte, k), make([]byte, k)
		na, ea := io.ReadFull(rs, pa)
		nb, eb := io.ReadFull(ref, pb)
		res.Count("read_steps", 1)
		if na != nb || !bytes.Equal(pa[:na], pb[:nb]) {
			return strings.Join(script, " "), fmt.Sprintf("step %d Read(%d): got %d bytes, want %d; content equal=%v", s, k, na, nb, bytes.Equal(pa[:min(na, nb)], pb[:min(na, nb)]))
		}
		if (ea == nil) != (eb == nil) || errors.Is(ea, io.ErrUnexpectedEOF) != errors.Is(eb, io.ErrUnexpectedEOF) || (ea == io.EOF) != (eb == io.EOF) {
			return strings.Join(script, " "), fmt.Sprintf("step %d Read(%d): error %v, bytes.Reader says %v", s, k, ea, eb)
		}
		if ea != nil {
			res.Count("read_eof_steps", 1)
		}
	}
	return strings.Join(script, " "), ""
}
