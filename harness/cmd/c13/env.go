package main

import (
	"encoding/json"
	"fmt"
	"math/rand/v2"
	"strings"

	"github.com/opencontainers/go-digest"
	ocispec "github.com/opencontainers/image-spec/specs-go/v1"
	"oras.land/oras-go/v2/registry/remote"
	"oras.land/oras-go/v2/verifharness/gen"
	"oras.land/oras-go/v2/verifharness/regmodel"
	"oras.land/oras-go/v2/verifharness/stores"
	"oras.land/oras-go/v2/verifharness/worker"
)

type envOpts struct {
	nodes      int
	bigBlob    bool
	plainOpts  bool // default Repository options only
	fixedProf  *regmodel.Profile
	noCustomMT bool
}

// newEnv builds the registry model, the Repository under test and the content
// pool of one case from the PRNG.
func newEnv(rng *rand.Rand, res *worker.Result, o envOpts) (*env, error) {
	v := &env{rng: rng, res: res, exp: newExp(), src: map[digest.Digest][]byte{}, kinds: map[string]bool{}, bigrams: map[string]bool{}}
	if o.fixedProf != nil {
		v.prof = *o.fixedProf
	} else {
		v.prof = randomProfile(rng)
	}
	v.tagMode = !v.prof.ReferrersAPI

	go_ := gen.DefaultOpts(rng, o.nodes)
	go_.ManifestAsBlob = rng.IntN(4) == 0
	go_.AbsentSubjects = rng.IntN(3) == 0
	go_.Platforms = rng.IntN(4) == 0
	go_.Subjects = 1 + o.nodes/5
	if o.bigBlob {
		go_.BigBlob = []int{600, 3000, 20000, 70000}[rng.IntN(4)]
	}
	g := gen.Generate(rng, go_)
	for _, nd := range g.Nodes {
		v.nodes = append(v.nodes, parseNode(nd.ID, nd.Kind.String(), nd.Desc, nd.Bytes, nd.Kind.IsManifestKind()))
	}
	// one manifest of a media type outside the default list: a manifest only
	// for a Repository whose ManifestMediaTypes names it
	var cfg *node
	var layers []ocispec.Descriptor
	for _, n := range v.nodes {
		if n.kind == "config" && cfg == nil {
			cfg = n
		}
		if n.kind == "blob" && len(layers) < 2 {
			layers = append(layers, n.desc)
		}
	}
	// several referrers of one subject, so that listings span pages
	var hot *node
	for _, n := range v.nodes {
		if n.json && (hot == nil || rng.IntN(3) == 0) {
			hot = n
		}
	}
	if cfg != nil && hot != nil {
		for k, extra := 0, 2+rng.IntN(4); k < extra; k++ {
			m := ocispec.Manifest{MediaType: gen.MTOCIManifest, Config: cfg.desc, Layers: []ocispec.Descriptor{},
				ArtifactType: []string{"", "application/vnd.test.sig", "application/vnd.test.sbom"}[rng.IntN(3)],
				Annotations:  map[string]string{"org.test.salt": fmt.Sprintf("%x", rng.Uint64())}}
			m.SchemaVersion = 2
			s := gen.Plain(hot.desc)
			m.Subject = &s
			b, _ := json.Marshal(m)
			d := ocispec.Descriptor{MediaType: gen.MTOCIManifest, Digest: digest.FromBytes(b), Size: int64(len(b))}
			v.nodes = append(v.nodes, parseNode(len(v.nodes), "manifest", d, b, true))
		}
	}
	if cfg != nil {
		doc := map[string]any{"schemaVersion": 2, "mediaType": mtCustom, "config": cfg.desc, "layers": layers,
			"annotations": map[string]string{"org.test.salt": fmt.Sprintf("%x", rng.Uint64())}}
		b, _ := json.Marshal(doc)
		d := ocispec.Descriptor{MediaType: mtCustom, Digest: digest.FromBytes(b), Size: int64(len(b))}
		v.nodes = append(v.nodes, parseNode(len(v.nodes), "custom", d, b, true))
	}

	h, err := stores.New("remote", &v.prof)
	if err != nil {
		return nil, err
	}
	v.h, v.reg, v.repo = h, h.Reg, h.Repo
	v.reg.KeepHeaders = true
	v.installRangeFaults()
	v.host = strings.TrimPrefix(h.Server.URL, "http://")

	// Repository options
	var labels []string
	if !o.plainOpts {
		switch k := rng.IntN(6); {
		case k == 0:
			v.mmt = append([]string{}, defaultManifestTypes...)
			labels = append(labels, "mmt=explicit-default")
		case k == 1 && !o.noCustomMT:
			v.mmt = []string{gen.MTOCIManifest, gen.MTOCIIndex, gen.MTArtifactManifest, mtCustom}
			labels = append(labels, "mmt=oci+custom")
		case k == 2 && !o.noCustomMT:
			v.mmt = []string{gen.MTOCIManifest, mtCustom, gen.MTDockerManifest}
			labels = append(labels, "mmt=noindex+custom")
		}
		v.repo.ManifestMediaTypes = v.mmt
		v.repo.TagListPageSize = []int{0, 0, 1, 2, 3, 7}[rng.IntN(6)]
		v.repo.ReferrerListPageSize = []int{0, 0, 1, 3}[rng.IntN(4)]
		v.skipGC = rng.IntN(3) == 0
		v.repo.SkipReferrersGC = v.skipGC
		labels = append(labels, fmt.Sprintf("tps=%d rps=%d skipgc=%v", v.repo.TagListPageSize, v.repo.ReferrerListPageSize, v.skipGC))
		if rng.IntN(3) == 0 {
			v.repo.HandleWarning = func(remote.Warning) {}
			labels = append(labels, "warn")
		}
		if rng.IntN(3) == 0 {
			v.repo.MaxMetadataBytes = 1 << 20
			labels = append(labels, "maxmeta")
		}
		if rng.IntN(2) == 0 {
			// the other entry point: a Repository derived from a Registry that
			// carries the same options must behave exactly like one built with
			// NewRepository and configured directly
			rg, err := remote.NewRegistry(v.host)
			if err != nil {
				h.Close()
				return nil, err
			}
			rg.Client = v.repo.Client
			rg.PlainHTTP = v.repo.PlainHTTP
			rg.ManifestMediaTypes = v.repo.ManifestMediaTypes
			rg.TagListPageSize = v.repo.TagListPageSize
			rg.ReferrerListPageSize = v.repo.ReferrerListPageSize
			rg.MaxMetadataBytes = v.repo.MaxMetadataBytes
			rg.SkipReferrersGC = v.repo.SkipReferrersGC
			rg.HandleWarning = v.repo.HandleWarning
			derived, err := rg.Repository(ctx, repoName)
			if err != nil {
				h.Close()
				return nil, err
			}
			rr, ok := derived.(*remote.Repository)
			if !ok {
				h.Close()
				return nil, fmt.Errorf("Registry.Repository returned %T", derived)
			}
			v.repo = rr
			labels = append(labels, "via-registry")
		}
		if rng.IntN(4) == 0 {
			// capability stated up front, as the registry really is
			if err := v.repo.SetReferrersCapability(v.prof.ReferrersAPI); err != nil {
				h.Close()
				return nil, err
			}
			labels = append(labels, "cap-preset")
		}
	}
	v.opts = strings.Join(labels, " ")

	// mount source: a sibling repository holding some of the blobs
	for _, n := range v.nodes {
		if (n.kind == "blob" || n.kind == "config") && rng.IntN(2) == 0 || (n.json && rng.IntN(8) == 0) {
			v.reg.PutBlob(srcName, n.bytes)
			v.src[n.desc.Digest] = n.bytes
		}
	}
	v.seenLog = len(v.reg.Log())
	return v, nil
}

func (v *env) close() {
	v.closeIdle()
	v.h.Close()
}

func (v *env) describe() map[string]any {
	var pool []string
	for _, n := range v.nodes {
		s := fmt.Sprintf("%d:%s %s %dB", n.id, n.kind, short(n.desc.Digest), n.desc.Size)
		if n.subject != nil {
			s += " subject=" + short(n.subject.Digest)
		}
		pool = append(pool, s)
	}
	tr := v.trace
	if len(tr) > 260 {
		tr = tr[len(tr)-260:]
	}
	return map[string]any{"profile": profileLabel(v.prof), "options": v.opts, "pool": pool, "ops": tr}
}
