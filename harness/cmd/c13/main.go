// C13 — A remote Repository is a faithful, spec-conforming view of the registry.
//
// Monitor, two phases, both against the stateful registry model (regmodel)
// served on loopback, every request passing through the model's validator:
//
//	hist     random histories (40–200 operations) of Repository / Blobs() /
//	         Manifests() calls under a random capability profile and a random
//	         Repository option set. After every operation its result is compared
//	         with what the registry's state implies, and the registry's state with
//	         what the operation should have made of it (the oracle keeps its own
//	         account, including the client-maintained referrers indexes of
//	         registries without the Referrers API). Read/Seek scripts on blob
//	         readers are compared step by step with a bytes.Reader.
//	corrupt  one operation with exactly one field of one response corrupted;
//	         where the field contradicts what was requested the call or the
//	         verified read of its body must fail; elsewhere it may only succeed
//	         with the truth.
package main

import (
	_ "crypto/sha256"
	_ "crypto/sha512"
	"fmt"
	"os"
	"time"

	"oras.land/oras-go/v2/verifharness/evidence"
	"oras.land/oras-go/v2/verifharness/worker"
)

func runCase(phase string, i int) worker.Result {
	switch phase {
	case "hist":
		return runHist(i)
	case "corrupt":
		return runCorrupt(i)
	}
	var res worker.Result
	res.Violate("harness:phase", "unknown phase "+phase, nil)
	return res
}

func main() {
	if worker.IsWorker() {
		worker.Serve(runCase)
		return
	}
	r := evidence.New("C13", "exploration")
	r.Rule("hist: case = seeded (registry capability profile over 12 knobs, Repository option set {ManifestMediaTypes default/explicit/custom, TagListPageSize, ReferrerListPageSize, SkipReferrersGC, HandleWarning, preset referrers capability}, " +
		"content pool from the DAG generator plus one custom-media-type manifest, history of 40–200 operations out of 18 kinds (one holds several fetched readers open and reads them later, interleaved)); after every operation: result vs registry-model state, registry-model state vs the oracle's own account, every request vs the specification validator; " +
		"distinct = (profile, option set, set of operation-kind bigrams); non-trivial = ≥ 4 operation kinds and ≥ 1 manifest with a subject stored. " +
		"corrupt: case = (operation out of 16, one corrupted field out of 24 of one response, profile); distinct = (operation, corruption, corrupted response's method, digest-header/unknown-length/range bits); non-trivial = the corruption reached a response and the pair is judged")
	r.Assume("the registry is regmodel, a model of the OCI distribution specification v1.1 served over plain HTTP on loopback (TLS and real servers are not exercised)")
	r.Assume("n= on the referrers endpoint (sent only with ReferrerListPageSize > 0) and n= added to a pagination URL handed out in a Link header are tolerated by the request validator")
	r.Assume("by descriptor, a response that declares a Content-Length different from the descriptor's size must make the call itself fail (the statement's wording); for every other contradiction a failing verified read (content.ReadAll) of the returned body is accepted as well")
	r.Assume("unjudged by design of the statement: Resolve(tag) by HEAD without Docker-Content-Digest (and FetchReference(tag) when GET carries no length either) may fail; a corrupted field the client has nothing to compare with (content type by reference, digest header or length of a HEAD by tag) is not a contradiction")

	worker.Run(r, worker.Opts{Phase: "hist", Total: r.N(400, 30000), Batch: r.N(8, 50), Timeout: 15 * time.Minute})
	worker.Run(r, worker.Opts{Phase: "corrupt", Total: r.N(2000, 120000), Batch: r.N(50, 500), Timeout: 15 * time.Minute})

	applied := r.Counter("corruptions_applied")
	r.Set("corruptions_tried_x_detected", fmt.Sprintf("tried %d, reached a response %d, detected %d, harmless (truth returned) %d, unjudged %d",
		r.Counter("corruptions_tried"), applied, r.Counter("corruptions_detected"), r.Counter("corruptions_harmless"), r.Counter("corruptions_unjudged")))
	code := r.Write(r.N(500, 20000))
	if code == 0 {
		for _, c := range []string{"requests_validated", "seek_steps", "seek_faults_injected", "read_steps", "overlapped_readers_read", "corruptions_detected", "nonempty_referrer_listings", "mounts_honoured", "mounts_fallback", "contradictions_refused"} {
			if r.Counter(c) == 0 {
				fmt.Printf("BROKEN: property=C13 counter %s is zero: the run observed too little\n", c)
				code = 2
			}
		}
	}
	os.Exit(code)
}
