package main

import (
	"bytes"
	"context"
	"errors"
	"fmt"
	"io"
	"sort"
	"strings"

	"github.com/opencontainers/go-digest"
	ocispec "github.com/opencontainers/image-spec/specs-go/v1"
	"oras.land/oras-go/v2/content"
	"oras.land/oras-go/v2/errdef"
	"oras.land/oras-go/v2/registry"
	"oras.land/oras-go/v2/verifharness/evidence"
	"oras.land/oras-go/v2/verifharness/gen"
	"oras.land/oras-go/v2/verifharness/worker"
)

var ctx = context.Background()

var tagVocab = []string{"v1", "v2", "latest", "a.b-c_d", "Z9", "_x"}

func isNF(err error) bool { return errors.Is(err, errdef.ErrNotFound) }

func (v *env) fail(key, f string, a ...any) {
	if v.failed {
		return
	}
	v.failed = true
	v.res.Violate(key, fmt.Sprintf(f, a...), v.describe())
}

// step records the operation about to run.
func (v *env) step(kind, detail string) {
	v.trace = append(v.trace, kind+" "+detail)
	v.kinds[kind] = true
	if v.lastOp != "" {
		v.bigrams[v.lastOp+">"+kind] = true
	}
	v.lastOp = kind
	v.res.Count("ops", 1)
	v.res.Count("op_"+kind, 1)
}

// after validates the requests the operation emitted and the state it left.
func (v *env) after(kind string) {
	_, viol := v.takeLog()
	var other []string
	for _, s := range viol {
		if strings.HasPrefix(s, "PUT ") && strings.Contains(s, "/blobs/uploads/") && strings.HasSuffix(s, "upload PUT without Content-Length") {
			// specific shape, reported once per case without ending the case
			if !v.chunkedPut {
				v.chunkedPut = true
				v.res.Violate("spec-request:upload-put-without-content-length", "blob upload PUT sent with chunked transfer encoding and no Content-Length (the specification lists Content-Length: <length> for the closing PUT): "+s, v.describe())
			}
			continue
		}
		other = append(other, s)
	}
	if len(other) > 0 {
		v.fail("spec-request:"+kind, "request not allowed by the distribution specification: %s", strings.Join(other, " | "))
	}
	s := v.checkState()
	if v.collision {
		if !v.failed {
			v.res.Count("unjudged_referrers_index_identical_to_pool_manifest", 1)
		}
		v.failed = true // the history ends here, nothing is reported
		return
	}
	if s != "" {
		v.fail("state:"+kind, "registry state after %s differs from what the operation implies: %s", kind, s)
	}
}

type plainReader struct{ r io.Reader }

func (p plainReader) Read(b []byte) (int, error) { return p.r.Read(b) }

func (v *env) reader(b []byte) io.Reader {
	switch v.rng.IntN(3) {
	case 0:
		return bytes.NewReader(b)
	case 1:
		return plainReader{bytes.NewReader(b)}
	}
	return io.NopCloser(bytes.NewReader(b))
}

func readVerified(rc io.ReadCloser, desc ocispec.Descriptor) ([]byte, error) {
	defer rc.Close()
	return content.ReadAll(rc, desc)
}

func (v *env) hasBlob(n *node) bool { _, ok := v.exp.blobs[n.desc.Digest]; return ok }
func (v *env) hasManifest(n *node) bool {
	_, ok := v.exp.manifests[n.desc.Digest]
	return ok
}
func (v *env) stored(n *node) bool {
	if v.routeManifest(n.desc.MediaType) {
		return v.hasManifest(n)
	}
	return v.hasBlob(n)
}

func (v *env) pick(pred func(*node) bool) *node {
	var c []*node
	for _, n := range v.nodes {
		if pred(n) {
			c = append(c, n)
		}
	}
	if len(c) == 0 {
		return v.nodes[v.rng.IntN(len(v.nodes))]
	}
	return c[v.rng.IntN(len(c))]
}

func (v *env) pickStoredOrNot(pStored int) *node {
	if v.rng.IntN(100) < pStored {
		return v.pick(v.stored)
	}
	return v.pick(func(*node) bool { return true })
}

// ---- operations -----------------------------------------------------------

func (v *env) pushNode(n *node, via int) {
	asManifest := v.routeManifest(n.desc.MediaType) && via != 3
	v.step("push", fmt.Sprintf("node %d via %d manifest=%v", n.id, via, asManifest))
	var err error
	rd := v.reader(n.bytes)
	switch {
	case via == 3:
		err = v.repo.Blobs().Push(ctx, n.desc, rd)
	case via == 2 && asManifest:
		err = v.repo.Manifests().Push(ctx, n.desc, rd)
	case via == 2:
		err = v.repo.Blobs().Push(ctx, n.desc, rd)
	default:
		err = v.repo.Push(ctx, n.desc, rd)
	}
	wantOK := !asManifest || v.manifestPutOK(n)
	switch {
	case wantOK && err != nil:
		v.fail("push-failed", "Push(node %d %s) failed: %v", n.id, n.desc.MediaType, err)
	case !wantOK && err == nil:
		v.fail("push-refusal-swallowed", "Push(node %d) returned nil although the registry refused the manifest (missing children)", n.id)
	case wantOK && asManifest:
		v.applyManifestPut(n, n.desc.MediaType, true)
	case wantOK:
		v.exp.blobs[n.desc.Digest] = n.bytes
	}
	v.after("push")
}

func (v *env) opPush() {
	var n *node
	if v.rng.IntN(4) != 0 {
		n = v.pick(func(n *node) bool {
			return !v.stored(n) && (!v.routeManifest(n.desc.MediaType) || v.manifestPutOK(n))
		})
	} else {
		n = v.pick(func(*node) bool { return true })
	}
	via := v.rng.IntN(5)
	if via == 3 && v.rng.IntN(2) == 0 {
		via = 0
	}
	v.pushNode(n, via)
}

func (v *env) refForms(tag string, d digest.Digest) (ref string, isTag bool) {
	fq := v.host + "/" + repoName
	switch v.rng.IntN(6) {
	case 0:
		return fq + ":" + tag, true
	case 1:
		return tag + "@" + d.String(), false // "@ implies digest, the tag is dropped"
	case 2:
		return fq + ":" + tag + "@" + d.String(), false
	}
	return tag, true
}

func (v *env) opPushRef() {
	n := v.pick(func(n *node) bool { return v.routeManifest(n.desc.MediaType) && v.manifestPutOK(n) })
	if !v.routeManifest(n.desc.MediaType) {
		return
	}
	tag := tagVocab[v.rng.IntN(len(tagVocab))]
	ref, isTag := v.refForms(tag, n.desc.Digest)
	v.step("pushref", fmt.Sprintf("node %d ref %q", n.id, strings.Replace(ref, v.host, "HOST", 1)))
	var err error
	if v.rng.IntN(2) == 0 {
		err = v.repo.PushReference(ctx, n.desc, v.reader(n.bytes), ref)
	} else {
		err = v.repo.Manifests().PushReference(ctx, n.desc, v.reader(n.bytes), ref)
	}
	wantOK := v.manifestPutOK(n)
	switch {
	case wantOK && err != nil:
		v.fail("pushref-failed", "PushReference(node %d, %q) failed: %v", n.id, ref, err)
	case !wantOK && err == nil:
		v.fail("push-refusal-swallowed", "PushReference(node %d) returned nil although the registry refused the manifest", n.id)
	case wantOK:
		v.applyManifestPut(n, n.desc.MediaType, true)
		if isTag {
			v.exp.tags[tag] = n.desc.Digest
		}
	}
	v.after("pushref")
}

func (v *env) opPushBad() {
	n := v.pick(func(n *node) bool { return len(n.bytes) > 1 && !v.stored(n) })
	if len(n.bytes) < 2 {
		return
	}
	bad := append([]byte{}, n.bytes...)
	how := "flip"
	if v.rng.IntN(3) == 0 {
		bad = bad[:len(bad)-1]
		how = "short"
	} else {
		bad[v.rng.IntN(len(bad))] ^= 0x20
	}
	v.step("pushbad", fmt.Sprintf("node %d %s", n.id, how))
	// a bytes.Reader lets the library see the length up front; wrong length
	// through an opaque reader would make the HTTP client itself emit a short
	// body, which is the caller's fault, not the library's
	err := v.repo.Push(ctx, n.desc, bytes.NewReader(bad))
	if err == nil {
		v.fail("push-mismatch-accepted", "Push(node %d) with %s content returned nil", n.id, how)
	}
	v.after("pushbad")
}

func (v *env) otherManifestType(mt string) string {
	var c []string
	list := v.mmt
	if len(list) == 0 {
		list = defaultManifestTypes
	}
	for _, m := range list {
		if m != mt {
			c = append(c, m)
		}
	}
	if len(c) == 0 {
		return ""
	}
	return c[v.rng.IntN(len(c))]
}

func (v *env) opFetch() {
	n := v.pickStoredOrNot(75)
	desc := n.desc
	variant := "plain"
	forcedBlob := v.rng.IntN(7) == 0
	asManifest := v.routeManifest(desc.MediaType) && !forcedBlob
	switch k := v.rng.IntN(10); {
	case k == 0 && asManifest:
		if o := v.otherManifestType(desc.MediaType); o != "" {
			desc.MediaType = o
			variant = "wrong-media-type"
		}
	case k == 1:
		if v.rng.IntN(2) == 0 || desc.Size == 0 {
			desc.Size++
		} else {
			desc.Size--
		}
		variant = "wrong-size"
	}
	v.step("fetch", fmt.Sprintf("node %d %s manifest=%v", n.id, variant, asManifest))
	var rc io.ReadCloser
	var err error
	switch {
	case forcedBlob:
		rc, err = v.repo.Blobs().Fetch(ctx, desc)
	case v.rng.IntN(4) == 0 && asManifest:
		rc, err = v.repo.Manifests().Fetch(ctx, desc)
	default:
		rc, err = v.repo.Fetch(ctx, desc)
	}
	present := false
	if asManifest {
		_, present = v.exp.manifests[n.desc.Digest]
	} else {
		present = v.hasBlob(n)
	}
	switch {
	case !present:
		if err == nil {
			rc.Close()
			v.fail("fetch-absent-succeeded", "Fetch(node %d) succeeded although the registry does not hold it", n.id)
		} else if !isNF(err) {
			v.fail("error-class:fetch", "Fetch of absent node %d: error is not ErrNotFound: %v", n.id, err)
		}
	case variant == "plain":
		if err != nil {
			v.fail("fetch-failed", "Fetch(node %d %s) failed: %v", n.id, desc.MediaType, err)
			break
		}
		if !asManifest && v.prof.Ranges {
			if _, ok := rc.(io.Seeker); !ok {
				v.fail("seek-unavailable", "blob reader of a registry announcing Accept-Ranges: bytes does not implement io.Seeker")
			}
		}
		got, rerr := readVerified(rc, desc)
		if rerr != nil {
			v.fail("fetch-mismatch", "verified read of Fetch(node %d) failed: %v", n.id, rerr)
		} else if !bytes.Equal(got, n.bytes) {
			v.fail("fetch-mismatch", "Fetch(node %d) returned other bytes", n.id)
		}
	default: // contradiction between the descriptor and what the registry holds
		if err != nil {
			v.res.Count("contradictions_refused", 1)
			break
		}
		if _, rerr := readVerified(rc, desc); rerr == nil {
			v.fail("contradiction-accepted:"+variant, "Fetch(node %d) with %s succeeded and its verified read passed", n.id, variant)
		} else {
			v.res.Count("contradictions_refused", 1)
		}
	}
	v.after("fetch")
}

// pickRef draws a reference to a manifest and resolves it in the oracle's state.
func (v *env) pickRef() (ref string, isTag bool, d digest.Digest) {
	tag := tagVocab[v.rng.IntN(len(tagVocab))]
	if v.rng.IntN(10) < 7 && len(v.exp.tags) > 0 {
		var ts []string
		for t := range v.exp.tags {
			ts = append(ts, t)
		}
		sort.Strings(ts)
		tag = ts[v.rng.IntN(len(ts))]
	}
	n := v.pick(func(n *node) bool { return v.hasManifest(n) })
	if v.rng.IntN(5) == 0 {
		n = v.pick(func(*node) bool { return true })
	}
	fq := v.host + "/" + repoName
	switch v.rng.IntN(8) {
	case 0, 1, 2:
		return tag, true, v.exp.tags[tag]
	case 3:
		return fq + ":" + tag, true, v.exp.tags[tag]
	case 4, 5:
		return n.desc.Digest.String(), false, n.desc.Digest
	case 6:
		return fq + "@" + n.desc.Digest.String(), false, n.desc.Digest
	}
	return tag + "@" + n.desc.Digest.String(), false, n.desc.Digest
}

func (v *env) showRef(ref string) string { return strings.Replace(ref, v.host, "HOST", 1) }

func (v *env) opFetchRef() {
	ref, isTag, d := v.pickRef()
	v.step("fetchref", v.showRef(ref))
	var desc ocispec.Descriptor
	var rc io.ReadCloser
	var err error
	if v.rng.IntN(2) == 0 {
		desc, rc, err = v.repo.FetchReference(ctx, ref)
	} else {
		desc, rc, err = v.repo.Manifests().FetchReference(ctx, ref)
	}
	m, ok := v.exp.manifests[d]
	switch {
	case !ok:
		if err == nil {
			rc.Close()
			v.fail("fetchref-absent-succeeded", "FetchReference(%q) succeeded with %s although nothing is stored under it", v.showRef(ref), short(desc.Digest))
		} else if !isNF(err) {
			v.fail("error-class:fetchref", "FetchReference(%q) of an absent reference: error is not ErrNotFound: %v", v.showRef(ref), err)
		}
	case err != nil:
		if isTag && !v.prof.DigestHeader && v.prof.UnknownLength {
			// no length on GET makes the library HEAD the tag; HEAD without
			// Docker-Content-Digest cannot name the digest (documented truth table)
			v.res.Count("unjudged_fetchref_tag_no_length_no_digest_header", 1)
			break
		}
		v.fail("fetchref-failed", "FetchReference(%q) failed: %v", v.showRef(ref), err)
	default:
		want := ocispec.Descriptor{MediaType: m.mt, Digest: d, Size: int64(len(m.n.bytes))}
		if !content.Equal(desc, want) || desc.ArtifactType != "" || len(desc.Annotations) != 0 {
			rc.Close()
			v.fail("fetchref-descriptor", "FetchReference(%q) = %s %s %d, registry holds %s %s %d", v.showRef(ref), desc.MediaType, short(desc.Digest), desc.Size, want.MediaType, short(want.Digest), want.Size)
			break
		}
		got, rerr := readVerified(rc, desc)
		if rerr != nil || !bytes.Equal(got, m.n.bytes) {
			v.fail("fetchref-mismatch", "FetchReference(%q): body differs from the stored manifest (%v)", v.showRef(ref), rerr)
		}
	}
	v.after("fetchref")
}

func (v *env) opFetchRefBlob() {
	n := v.pickStoredOrNot(75)
	ref := n.desc.Digest.String()
	switch v.rng.IntN(6) {
	case 0:
		ref = v.host + "/" + repoName + "@" + ref
	case 1:
		ref = "anytag@" + ref
	}
	v.step("fetchrefblob", fmt.Sprintf("node %d %s", n.id, v.showRef(ref)))
	desc, rc, err := v.repo.Blobs().FetchReference(ctx, ref)
	switch {
	case !v.hasBlob(n):
		if err == nil {
			rc.Close()
			v.fail("fetchref-absent-succeeded", "Blobs().FetchReference(node %d) succeeded although the blob is absent", n.id)
		} else if !isNF(err) {
			v.fail("error-class:fetchrefblob", "Blobs().FetchReference of an absent blob: error is not ErrNotFound: %v", err)
		}
	case err != nil:
		v.fail("fetchref-failed", "Blobs().FetchReference(node %d) failed: %v", n.id, err)
	default:
		want := ocispec.Descriptor{MediaType: mtOctet, Digest: n.desc.Digest, Size: n.desc.Size}
		if !content.Equal(desc, want) {
			rc.Close()
			v.fail("fetchref-descriptor", "Blobs().FetchReference(node %d) = %s %s %d, want %s %s %d", n.id, desc.MediaType, short(desc.Digest), desc.Size, want.MediaType, short(want.Digest), want.Size)
			break
		}
		if v.prof.Ranges {
			if _, ok := rc.(io.Seeker); !ok {
				v.fail("seek-unavailable", "blob reader of a registry announcing Accept-Ranges: bytes does not implement io.Seeker")
			}
		}
		got, rerr := readVerified(rc, desc)
		if rerr != nil || !bytes.Equal(got, n.bytes) {
			v.fail("fetchref-mismatch", "Blobs().FetchReference(node %d): body differs (%v)", n.id, rerr)
		}
	}
	v.after("fetchrefblob")
}

func (v *env) opExists() {
	n := v.pickStoredOrNot(60)
	forcedBlob := v.rng.IntN(7) == 0
	asManifest := v.routeManifest(n.desc.MediaType) && !forcedBlob
	v.step("exists", fmt.Sprintf("node %d manifest=%v", n.id, asManifest))
	var got bool
	var err error
	switch {
	case forcedBlob:
		got, err = v.repo.Blobs().Exists(ctx, n.desc)
	case asManifest && v.rng.IntN(3) == 0:
		got, err = v.repo.Manifests().Exists(ctx, n.desc)
	default:
		got, err = v.repo.Exists(ctx, n.desc)
	}
	want := v.hasBlob(n)
	if asManifest {
		want = v.hasManifest(n)
	}
	if err != nil {
		v.fail("exists-failed", "Exists(node %d) failed: %v", n.id, err)
	} else if got != want {
		v.fail("exists-wrong", "Exists(node %d) = %v, registry state says %v", n.id, got, want)
	}
	v.after("exists")
}

func (v *env) opResolve() {
	ref, isTag, d := v.pickRef()
	v.step("resolve", v.showRef(ref))
	var desc ocispec.Descriptor
	var err error
	if v.rng.IntN(2) == 0 {
		desc, err = v.repo.Resolve(ctx, ref)
	} else {
		desc, err = v.repo.Manifests().Resolve(ctx, ref)
	}
	m, ok := v.exp.manifests[d]
	switch {
	case !ok:
		if err == nil {
			v.fail("resolve-absent-succeeded", "Resolve(%q) = %s although nothing is stored under it", v.showRef(ref), short(desc.Digest))
		} else if !isNF(err) {
			v.fail("error-class:resolve", "Resolve(%q) of an absent reference: error is not ErrNotFound: %v", v.showRef(ref), err)
		}
	case err != nil:
		if isTag && !v.prof.DigestHeader {
			v.res.Count("unjudged_resolve_tag_no_digest_header", 1) // documented: HEAD cannot know the digest
			break
		}
		v.fail("resolve-failed", "Resolve(%q) failed: %v", v.showRef(ref), err)
	default:
		want := ocispec.Descriptor{MediaType: m.mt, Digest: d, Size: int64(len(m.n.bytes))}
		if !content.Equal(desc, want) {
			v.fail("resolve-descriptor", "Resolve(%q) = %s %s %d, registry holds %s %s %d", v.showRef(ref), desc.MediaType, short(desc.Digest), desc.Size, want.MediaType, short(want.Digest), want.Size)
		}
	}
	v.after("resolve")
}

func (v *env) opResolveBlob() {
	n := v.pickStoredOrNot(70)
	ref := n.desc.Digest.String()
	if v.rng.IntN(5) == 0 {
		ref = v.host + "/" + repoName + "@" + ref
	}
	v.step("resolveblob", fmt.Sprintf("node %d", n.id))
	desc, err := v.repo.Blobs().Resolve(ctx, ref)
	switch {
	case !v.hasBlob(n):
		if err == nil {
			v.fail("resolve-absent-succeeded", "Blobs().Resolve(node %d) succeeded although the blob is absent", n.id)
		} else if !isNF(err) {
			v.fail("error-class:resolveblob", "Blobs().Resolve of an absent blob: error is not ErrNotFound: %v", err)
		}
	case err != nil:
		v.fail("resolve-failed", "Blobs().Resolve(node %d) failed: %v", n.id, err)
	default:
		want := ocispec.Descriptor{MediaType: mtOctet, Digest: n.desc.Digest, Size: n.desc.Size}
		if !content.Equal(desc, want) {
			v.fail("resolve-descriptor", "Blobs().Resolve(node %d) = %s %s %d, want %s %s %d", n.id, desc.MediaType, short(desc.Digest), desc.Size, want.MediaType, short(want.Digest), want.Size)
		}
	}
	v.after("resolveblob")
}

func (v *env) opTag() {
	n := v.pick(func(n *node) bool { return v.hasManifest(n) })
	if v.rng.IntN(6) == 0 {
		n = v.pick(func(*node) bool { return true })
	}
	tag := tagVocab[v.rng.IntN(len(tagVocab))]
	ref := tag
	if v.rng.IntN(5) == 0 {
		ref = v.host + "/" + repoName + ":" + tag
	}
	v.step("tag", fmt.Sprintf("node %d %q", n.id, v.showRef(ref)))
	var err error
	if v.rng.IntN(2) == 0 {
		err = v.repo.Tag(ctx, n.desc, ref)
	} else {
		err = v.repo.Manifests().Tag(ctx, n.desc, ref)
	}
	m, ok := v.exp.manifests[n.desc.Digest]
	switch {
	case !ok:
		if err == nil {
			v.fail("tag-absent-succeeded", "Tag(node %d) succeeded although the manifest is absent", n.id)
		} else if !isNF(err) {
			v.fail("error-class:tag", "Tag of an absent manifest: error is not ErrNotFound: %v", err)
		}
	case m.mt != n.desc.MediaType || !v.manifestPutOK(n):
		if err == nil {
			v.fail("tag-contradiction-accepted", "Tag(node %d as %s) succeeded; registry holds it as %s, put acceptable=%v", n.id, n.desc.MediaType, m.mt, v.manifestPutOK(n))
		}
	case err != nil:
		v.fail("tag-failed", "Tag(node %d, %q) failed: %v", n.id, tag, err)
	default:
		v.exp.tags[tag] = n.desc.Digest
	}
	v.after("tag")
}

func (v *env) opDelete() {
	n := v.pickStoredOrNot(75)
	forcedBlob := v.rng.IntN(8) == 0
	asManifest := v.routeManifest(n.desc.MediaType) && !forcedBlob
	if asManifest {
		if m, ok := v.exp.manifests[n.desc.Digest]; ok && m.mt != n.desc.MediaType {
			return // outcome depends on whether the client needs the manifest's body first
		}
	}
	v.step("delete", fmt.Sprintf("node %d manifest=%v", n.id, asManifest))
	var err error
	switch {
	case forcedBlob:
		err = v.repo.Blobs().Delete(ctx, n.desc)
	case asManifest && v.rng.IntN(3) == 0:
		err = v.repo.Manifests().Delete(ctx, n.desc)
	default:
		err = v.repo.Delete(ctx, n.desc)
	}
	present := v.hasBlob(n)
	if asManifest {
		present = v.hasManifest(n)
	}
	switch {
	case !present:
		if err == nil {
			v.fail("delete-absent-succeeded", "Delete(node %d) returned nil although it is absent", n.id)
		} else if !isNF(err) {
			v.fail("error-class:delete", "Delete of absent node %d: error is not ErrNotFound: %v", n.id, err)
		}
	case err != nil:
		v.fail("delete-failed", "Delete(node %d) failed: %v", n.id, err)
	case asManifest:
		v.applyManifestDelete(n.desc.Digest)
	default:
		delete(v.exp.blobs, n.desc.Digest)
	}
	v.after("delete")
}

var errGetContent = errors.New("verif: getContent refused")

func (v *env) opMount() {
	n := v.pick(func(n *node) bool { _, in := v.src[n.desc.Digest]; return in && !v.hasBlob(n) })
	if v.rng.IntN(3) == 0 {
		n = v.pick(func(n *node) bool { return !n.json })
	}
	_, inSrc := v.src[n.desc.Digest]
	mode := v.rng.IntN(4) // 0,1: nil getContent; 2: good; 3: failing
	var getContent func() (io.ReadCloser, error)
	called := 0
	switch mode {
	case 2:
		getContent = func() (io.ReadCloser, error) { called++; return io.NopCloser(bytes.NewReader(n.bytes)), nil }
	case 3:
		getContent = func() (io.ReadCloser, error) { called++; return nil, errGetContent }
	}
	v.step("mount", fmt.Sprintf("node %d inSrc=%v getContent=%d", n.id, inSrc, mode))
	err := v.repo.Mount(ctx, n.desc, srcName, getContent)
	direct := v.prof.MountOK && inSrc
	var wantOK bool
	switch {
	case direct:
		wantOK = true
	case mode <= 1:
		wantOK = inSrc
	case mode == 2:
		wantOK = true
	}
	switch {
	case wantOK && err != nil:
		v.fail("mount-failed", "Mount(node %d, inSrc=%v, mountOK=%v, getContent=%d) failed: %v", n.id, inSrc, v.prof.MountOK, mode, err)
	case !wantOK && err == nil:
		v.fail("mount-succeeded-without-content", "Mount(node %d) returned nil although neither the registry nor getContent could supply the blob", n.id)
	case !wantOK && mode == 3 && !errors.Is(err, errGetContent):
		v.fail("mount-error-not-wrapped", "Mount: getContent's error is not wrapped in %v", err)
	case wantOK:
		v.exp.blobs[n.desc.Digest] = n.bytes
		if direct && called > 0 {
			v.res.Count("mount_getcontent_called_despite_201", 1)
		}
		if direct {
			v.res.Count("mounts_honoured", 1)
		} else {
			v.res.Count("mounts_fallback", 1)
		}
	}
	v.after("mount")
}

func (v *env) pickSubject() (ocispec.Descriptor, string) {
	// a digest something names as its subject, or any node
	if v.rng.IntN(4) != 0 {
		var c []*node
		for _, n := range v.nodes {
			if n.subject != nil {
				c = append(c, n)
			}
		}
		if len(c) > 0 {
			s := *c[v.rng.IntN(len(c))].subject
			return gen.Plain(s), "subject " + short(s.Digest)
		}
	}
	n := v.pick(func(*node) bool { return true })
	return n.desc, fmt.Sprintf("node %d", n.id)
}

func (v *env) opPreds() {
	d, label := v.pickSubject()
	v.step("preds", label)
	got, err := v.repo.Predecessors(ctx, d)
	if err != nil {
		v.fail("predecessors-failed", "Predecessors(%s) failed: %v", label, err)
	} else {
		bag := map[string]int{}
		for _, g := range got {
			bag[entryOfDesc(g).key()]++
		}
		if diff := diffBags(v.expectedReferrers(d.Digest), bag); diff != "" {
			v.fail("predecessors-wrong", "Predecessors(%s): %s", label, diff)
		}
		if len(got) > 0 {
			v.res.Count("nonempty_referrer_listings", 1)
		}
	}
	v.after("preds")
}

func (v *env) opReferrers() {
	d, label := v.pickSubject()
	filters := []string{"", "application/vnd.test.sig", "application/vnd.test.sbom", "application/vnd.example+type", gen.MTOCIConfig, "application/vnd.test.artifact", "application/x-none"}
	at := filters[v.rng.IntN(len(filters))]
	v.step("referrers", label+" filter="+at)
	bag := map[string]int{}
	pages := 0
	err := v.repo.Referrers(ctx, d, at, func(rs []ocispec.Descriptor) error {
		pages++
		for _, g := range rs {
			bag[entryOfDesc(g).key()]++
		}
		return nil
	})
	if err != nil {
		v.fail("referrers-failed", "Referrers(%s, %q) failed: %v", label, at, err)
	} else {
		want := map[string]int{}
		all := v.expectedReferrers(d.Digest)
		for k, n := range all {
			if at == "" || strings.Contains(k, `"artifactType":"`+at+`"`) {
				want[k] = n
			}
		}
		if diff := diffBags(want, bag); diff != "" {
			v.fail("referrers-wrong", "Referrers(%s, %q): %s", label, at, diff)
		}
		if len(bag) > 0 {
			v.res.Count("nonempty_referrer_listings", 1)
		}
		v.res.MaxOf("max_referrer_pages", int64(pages))
	}
	v.after("referrers")
}

func (v *env) opTags() {
	last := ""
	if v.rng.IntN(3) == 0 {
		last = tagVocab[v.rng.IntN(len(tagVocab))]
	}
	v.step("tags", "last="+last)
	var want []string
	v.reg.WithLock(func() {
		if r := v.reg.Repos[repoName]; r != nil {
			for t := range r.Tags {
				if t > last {
					want = append(want, t)
				}
			}
		}
	})
	repoKnown := false
	v.reg.WithLock(func() { _, repoKnown = v.reg.Repos[repoName] })
	var got []string
	pages := 0
	var err error
	fn := func(ts []string) error { pages++; got = append(got, ts...); return nil }
	if v.rng.IntN(2) == 0 {
		err = v.repo.Tags(ctx, last, fn)
	} else {
		err = registry.Repository(v.repo).Tags(ctx, last, fn)
	}
	if err != nil {
		if !repoKnown {
			// a repository nothing was ever sent to does not exist yet
		} else {
			v.fail("tags-failed", "Tags(last=%q) failed: %v", last, err)
		}
	} else {
		sort.Strings(want)
		g := append([]string{}, got...)
		sort.Strings(g)
		if strings.Join(g, "\x00") != strings.Join(want, "\x00") {
			v.fail("tags-wrong", "Tags(last=%q) = %v, registry holds %v", last, got, want)
		}
		v.res.MaxOf("max_tag_pages", int64(pages))
	}
	v.after("tags")
}

func (v *env) opInvalidRef() {
	bad := []string{"bad tag!", "UPPER/case:tag", "", "tag@sha256:123", "@", "a@b@c", "sha256:zz", v.host + "/other/repo:v1"}
	ref := bad[v.rng.IntN(len(bad))]
	v.step("invalidref", fmt.Sprintf("%q", v.showRef(ref)))
	before := len(v.reg.Log())
	var err error
	switch v.rng.IntN(4) {
	case 0:
		_, err = v.repo.Resolve(ctx, ref)
	case 1:
		var rc io.ReadCloser
		_, rc, err = v.repo.FetchReference(ctx, ref)
		if err == nil {
			rc.Close()
		}
	case 2:
		n := v.pick(func(n *node) bool { return v.hasManifest(n) })
		err = v.repo.Tag(ctx, n.desc, ref)
	default:
		_, err = v.repo.Blobs().Resolve(ctx, ref)
	}
	if err == nil {
		v.fail("invalid-reference-accepted", "reference %q was accepted", v.showRef(ref))
	} else if n := len(v.reg.Log()) - before; n != 0 {
		v.fail("invalid-reference-sent", "reference %q caused %d requests before being refused", v.showRef(ref), n)
	}
	v.after("invalidref")
}

func (v *env) opSeek() {
	n := v.pick(func(n *node) bool { return v.hasBlob(n) })
	if !v.hasBlob(n) {
		return
	}
	v.step("seek", fmt.Sprintf("node %d (%dB)", n.id, len(n.bytes)))
	var rc io.ReadCloser
	var err error
	if v.rng.IntN(3) == 0 {
		_, rc, err = v.repo.Blobs().FetchReference(ctx, n.desc.Digest.String())
	} else {
		rc, err = v.repo.Fetch(ctx, gen.Plain(ocispec.Descriptor{MediaType: mtOctet, Digest: n.desc.Digest, Size: n.desc.Size}))
	}
	if err != nil {
		v.fail("fetch-failed", "Fetch of blob node %d failed: %v", n.id, err)
		v.after("seek")
		return
	}
	defer rc.Close()
	rs, ok := rc.(io.ReadSeeker)
	if !ok {
		if v.prof.Ranges {
			v.fail("seek-unavailable", "blob reader of a registry announcing Accept-Ranges: bytes does not implement io.Seeker")
		} else {
			v.res.Count("readers_without_seek", 1)
		}
		v.after("seek")
		return
	}
	if !v.prof.Ranges {
		v.res.Count("seekable_without_ranges", 1)
	}
	script, problem := seekScript(v, rs, n.bytes)
	v.trace[len(v.trace)-1] += " " + script
	if problem != "" {
		v.fail("seek-mismatch", "Read/Seek script on blob node %d (%d bytes): %s", n.id, len(n.bytes), problem)
	}
	v.after("seek")
}

// opOverlap fetches several pieces of content, keeps every reader open, and
// only then reads them, in another order: each reader must deliver exactly the
// bytes of what it was opened for, whatever was fetched in between.
func (v *env) opOverlap() {
	type held struct {
		n    *node
		how  string
		desc ocispec.Descriptor
		rc   io.ReadCloser
	}
	var hs []held
	closeAll := func() {
		for _, h := range hs {
			if h.rc != nil {
				h.rc.Close()
			}
		}
	}
	k := 2 + v.rng.IntN(3)
	var plan []string
	type pl struct {
		n   *node
		how string
	}
	var pls []pl
	for j := 0; j < k; j++ {
		if v.rng.IntN(5) == 0 {
			n := v.pick(func(n *node) bool { return v.hasBlob(n) && !v.routeManifest(n.desc.MediaType) })
			if v.hasBlob(n) && !v.routeManifest(n.desc.MediaType) {
				pls = append(pls, pl{n, "fetch"})
			}
			continue
		}
		n := v.pick(func(n *node) bool { m, ok := v.exp.manifests[n.desc.Digest]; return ok && m.mt == n.desc.MediaType })
		if m, ok := v.exp.manifests[n.desc.Digest]; !ok || m.mt != n.desc.MediaType {
			continue
		}
		how := []string{"fetchref-digest", "fetchref-digest", "fetchref-tag", "fetch"}[v.rng.IntN(4)]
		if how == "fetch" && !v.routeManifest(n.desc.MediaType) {
			how = "fetchref-digest"
		}
		if how == "fetchref-tag" {
			tag := ""
			var ts []string
			for t, d := range v.exp.tags {
				if d == n.desc.Digest {
					ts = append(ts, t)
				}
			}
			sort.Strings(ts)
			if len(ts) > 0 && !(v.prof.UnknownLength && !v.prof.DigestHeader) {
				tag = ts[v.rng.IntN(len(ts))]
			}
			if tag == "" {
				how = "fetchref-digest"
			} else {
				how = "fetchref-tag:" + tag
			}
		}
		pls = append(pls, pl{n, how})
	}
	if len(pls) < 2 {
		return
	}
	for _, p := range pls {
		plan = append(plan, fmt.Sprintf("%s(%d)", p.how, p.n.id))
	}
	order := v.rng.Perm(len(pls))
	v.step("overlap", fmt.Sprintf("open %s read-order %v", strings.Join(plan, ","), order))
	for _, p := range pls {
		h := held{n: p.n, how: p.how}
		var err error
		switch {
		case p.how == "fetch":
			h.desc = p.n.desc
			h.rc, err = v.repo.Fetch(ctx, p.n.desc)
		case p.how == "fetchref-digest":
			h.desc, h.rc, err = v.repo.FetchReference(ctx, p.n.desc.Digest.String())
		default:
			h.desc, h.rc, err = v.repo.FetchReference(ctx, strings.TrimPrefix(p.how, "fetchref-tag:"))
		}
		if err != nil {
			closeAll()
			v.fail("fetch-failed", "overlap: %s of node %d failed: %v", p.how, p.n.id, err)
			v.after("overlap")
			return
		}
		hs = append(hs, h)
	}
	for _, j := range order {
		h := hs[j]
		got, rerr := readVerified(h.rc, h.desc)
		hs[j].rc = nil
		if rerr != nil || !bytes.Equal(got, h.n.bytes) {
			closeAll()
			v.fail("overlapping-readers", "%d readers held open, read in order %v: the reader opened by %s for node %d (#%d) did not deliver that content (%d bytes read, error %v)", len(hs), order, h.how, h.n.id, j, len(got), rerr)
			break
		}
		v.res.Count("overlapped_readers_read", 1)
	}
	v.after("overlap")
}

// ---- driver ---------------------------------------------------------------

func runHist(i int) worker.Result {
	seed := evidence.New("C13", "exploration").Seed
	rng := evidence.RandFor(seed, "c13-hist", i)
	var res worker.Result
	v, err := newEnv(rng, &res, envOpts{nodes: 8 + rng.IntN(14), bigBlob: rng.IntN(2) == 0})
	if err != nil {
		res.Violate("harness:setup", err.Error(), nil)
		return res
	}
	defer v.close()

	length := 40 + rng.IntN(161)
	// warm-up: a children-first prefix of pushes so that the state is rich early
	warm := rng.IntN(len(v.nodes) + 1)
	for _, n := range v.nodes[:warm] {
		if v.failed {
			break
		}
		if rng.IntN(5) != 0 {
			v.pushNode(n, rng.IntN(3))
		}
	}
	type wop struct {
		w int
		f func()
	}
	ops := []wop{{13, v.opPush}, {6, v.opPushRef}, {2, v.opPushBad}, {10, v.opFetch}, {8, v.opFetchRef}, {3, v.opFetchRefBlob},
		{6, v.opExists}, {6, v.opResolve}, {2, v.opResolveBlob}, {6, v.opTag}, {7, v.opDelete}, {5, v.opMount},
		{6, v.opPreds}, {5, v.opReferrers}, {4, v.opTags}, {5, v.opSeek}, {1, v.opInvalidRef}, {5, v.opOverlap}}
	total := 0
	for _, o := range ops {
		total += o.w
	}
	for len(v.trace) < length && !v.failed {
		k := rng.IntN(total)
		for _, o := range ops {
			if k < o.w {
				o.f()
				break
			}
			k -= o.w
		}
	}

	var bg []string
	for b := range v.bigrams {
		bg = append(bg, b)
		res.Observe("op_bigrams", b)
	}
	sort.Strings(bg)
	res.Key = profileLabel(v.prof) + "|" + v.opts + "|" + strings.Join(bg, ",")
	res.NT = len(v.kinds) >= 4 && v.subjOK
	res.Observe("profiles", profileLabel(v.prof))
	res.Observe("profile_option_sets", profileLabel(v.prof)+"|"+v.opts)
	res.MaxOf("max_history_length", int64(len(v.trace)))
	if i%53 == 0 {
		d := v.describe()
		if tr, ok := d["ops"].([]string); ok && len(tr) > 25 {
			d["ops"] = append(append([]string{}, tr[:25]...), fmt.Sprintf("… %d more", len(tr)-25))
		}
		delete(d, "pool")
		res.Sample = d
	}
	return res
}
