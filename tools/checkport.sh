#!/bin/bash
# validates a hand-ported seeded change (patch_head.diff): demo passes without it, fails with it, touched packages' tests pass with it
set -u
S=/verif/seeded/$1
export GOFLAGS=-mod=mod GOPROXY=off GOSUMDB=off GOTOOLCHAIN=local
ddir=$(python3 -c "
import json,re
m=json.load(open('$S/agent_meta.json'))
d=m.get('demo_dir')
if not d:
    r=re.search(r'cp\s+\S+\s+(\S+)/[^/\s]+_test\.go',m.get('demo_cmd',''))
    d=r.group(1) if r else '.'
print(d[2:] if d.startswith('./') else d)")
WT=$(mktemp -d /tmp/cp-XXXX); rmdir $WT; git -C /repo worktree add --detach $WT HEAD >/dev/null 2>&1
cp $S/demo_test.go $WT/$ddir/zz_seeded_demo_test.go
(cd $WT/$ddir && timeout 900 go test -count=1 -run 'Seed|Demo' . > /dev/null 2>&1) && wo=pass || wo="fail(unexpected)"
git -C $WT apply $S/patch_head.diff || echo "port does not apply"
(cd $WT/$ddir && timeout 900 go test -count=1 -run 'Seed|Demo' . > /dev/null 2>&1) && wi="pass(unexpected)" || wi=fail
rm $WT/$ddir/zz_seeded_demo_test.go
pk=$(git -C $WT diff --name-only | xargs -n1 dirname | sort -u | sed 's|^|./|' | tr '\n' ' ')
(cd $WT && go test -count=1 $pk . 2>&1 | grep -v "^ok\|no test files" | grep -v OverwriteSymlink_RemovalFailed | head -5)
echo "$1 port: demo with=$wi without=$wo packages=$pk"
git -C /repo worktree remove --force $WT >/dev/null 2>&1; rm -rf $WT
