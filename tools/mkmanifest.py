#!/usr/bin/env python3
"""Regenerates /verif/MANIFEST.json from the table below (keeps it valid at all times).
Usage: python3 tools/mkmanifest.py   (then validate with tools/validate.sh)"""
import json, os, subprocess

ROOT = os.path.dirname(os.path.dirname(os.path.abspath(__file__)))
ALL = ["C%02d" % i for i in range(1, 21)]

CHECKS = {
 "C01": dict(cat="exploration",
  text="The real Copy/CopyGraph run on seeded Merkle DAGs over all 16 source x destination pairings (memory, OCI layout, file store, registry model) with link-closed pre-population, Concurrency, MapRoot/platform options and seeded storage latencies; at return an oracle reads the unwrapped destination and compares every node of the generator's own closure byte-for-byte, the returned root and the resolved destination reference. Sampling of inputs and schedules is the right level: the property quantifies over unbounded DAGs and interleavings, which only execution of the real traversal exercises.",
  note="Held on the executions observed (counts in evidence). Registries are represented by the registry model on loopback; interleavings are sampled by latency seeds, 16 cores and the race detector, not enumerated. One known finding (digest-keyed destination, manifest bytes also stored as blob) is listed in known_findings.json.",
  tech="runtime monitoring: generator ground-truth oracle at the store boundary over seeded copy executions + Go race detector"),
 "C02": dict(cat="fault_enumeration",
  text="For every small generated case the fault points (operation, node, ordinal) reached by a fault-free run are enumerated and each is faulted once with an error and once with a cancellation on fresh stores; larger graphs get 1-3 random simultaneous faults. Monitors: link-closure of the underlying destination at the completion of every push and at quiescence, surfacing of the fault, logical hang detection (progress counter, in-flight gauges, goroutine-dump classification), goroutine leaks, and a fault-free re-run that must complete the graph.",
  note="Exhaustive only for single faults on the small cases; interleavings under Concurrency 3 are sampled. A hang is declared on a logical proof only (no progress, nothing in flight, all library goroutines parked); the wall-clock watchdog alone is inconclusive.",
  tech="runtime monitoring: fault injection at wrapper boundaries, closure monitor at push completion, goroutine-dump hang classifier, race detector"),
 "C03": dict(cat="exploration",
  text="ExtendedCopy/ExtendedCopyGraph run on seeded DAGs with referrer chains and indexes from every source kind (memory, OCI fresh and reopened via directory/fs.FS/tar, file store, registry model with Referrers API and with the tag schema), with depth limits and artifact-type/annotation filters; the destination's node set is compared with the closure computed on the generator's own edges (exact for unlimited depth, two-sided bounds for a depth limit).",
  note="Held on the executions observed. Docker-schema manifests are not generated in filter cases. Registries expose subject links only. Interleavings sampled.",
  tech="runtime monitoring: set-equality oracle against generator ground truth over seeded executions + race detector"),
 "C04": dict(cat="exploration",
  text="Recording wrappers with seeded latencies hold storage operations open while the real copy runs; in-flight gauges, per-descriptor fetch/push counters and the callback trace are updated under one mutex with a logical clock and checked against the statement (gauge <= Concurrency, single transfer, PreCopy/PostCopy/OnMounted/OnCopySkipped multiplicities and ordering, callback error returned).",
  note="Held on the executions observed; evidence reports how many runs saturated the concurrency bound. Config blobs read by platform selection before the graph copy are exempt from fetch-once. Re-pushing an already present root with its reference (tagging on registries) is not counted as a transfer.",
  tech="runtime monitoring: gauges/counters/trace monitors at the storage boundary with latency injection + race detector"),
 "C07": dict(cat="exploration",
  text="Predecessors of every DAG node is compared with the generator's inverse edge list restricted to stored nodes after every step of seeded histories: all push-order classes (children first, parents first, random, concurrent, partial), deletes, GC, re-pushes and reopening via directory, fs.FS and tar archives.",
  note="Held on the executions observed. One media type per digest in this check. Concurrent pushes also run under the race detector.",
  tech="runtime monitoring: reference-model oracle over seeded histories + race detector"),
 "C12": dict(cat="exploration",
  text="Seeded random directory trees and single files are added to a real file store, packed, copied through none/memory/OCI layout/registry model into a second file store under all option sets and several umasks, and the restored tree is compared entry by entry with a snapshot of the source; side phases check reproducible descriptors, refusal of tampered uncompressed digests and materialisation of equal-bytes names.",
  note="Runs as root (no permission-denied effects). Go's archive/tar, gzip and sha256 are trusted when inspecting archives. Special mode bits and single-file modes are counted, not judged. One known finding (IgnoreNoName + equal-bytes names) is listed.",
  tech="runtime monitoring: file-system snapshot-diff oracle over seeded trees and option sets"),
 "C13": dict(cat="exploration",
  text="Seeded histories (40-200 calls, 17 kinds) of Repository/Blobs()/Manifests() operations run against a stateful model of the distribution spec under random capability profiles and Repository options; after every call the result is compared with the registry's state, the state with an independent account of what the call should have done (including client-maintained referrers indexes), every request with a spec validator, and Read/Seek scripts with a bytes.Reader. Then single calls run with exactly one response field corrupted (19 corruptions x 13 operations): the call or the verified read of its body must fail where the field contradicts the request, and may otherwise only return the truth.",
  note="Held on the executions observed. The registry is the model (regmodel), not a real server, over plain HTTP on loopback. Tolerated request shapes: n= on the referrers endpoint and n= added to a handed-out pagination URL. Unjudged: Resolve(tag) by HEAD without Docker-Content-Digest; fields the client has nothing to compare with; the profile (no Referrers API, GET without length, no digest header).",
  tech="runtime monitoring: reference-state oracle plus request validator over seeded histories; single-field response corruption"),
 "C17": dict(cat="fault_enumeration",
  text="The real auth.Client -> http.Client -> retry.Transport stack (and remote.Repository pushes through it) runs against an in-process scripted base transport that records, per attempt, the bytes received, the send it belongs to, the policy's decision and monotonic times. Every script over 8 server-outcome classes up to length 4 (quick) / 5 (thorough) x 3 body kinds x MaxRetry 0-2 is enumerated; seeded random scripts, cancellation cases and repository pushes come on top; GenericPolicy.Retry / ExponentialBackoff are evaluated logically over a parameter grid with panics captured as witnesses.",
  note="The scripted transport stands in for net/http.Transport plus a registry (no sockets). Inside each enumerated class the concrete status, size and token-service script are seed-drawn. Cancellation verdicts come from the attempt counter and a goroutine dump, not from timing. Held on the executions observed.",
  tech="runtime monitoring: per-attempt byte/attempt/pause oracle over exhaustive and random server-behaviour scripts, logical policy sweep"),
 "C06": dict(cat="exploration",
  text="Sequential histories of 60-400 Push/Fetch/Exists/Tag/Resolve/Predecessors (plus Untag, Delete, Tags, SaveIndex on the OCI layout) run on memory, OCI and file stores under their documented options; every result is compared with a content-map plus tag-map model and the full observable state is compared after every refused or failed step. Concurrent histories (4-16 goroutines, few keys, unique values) are recorded at the client boundary and checked with porcupine per content key and per reference; every Fetch result is re-hashed; Predecessors is compared at quiescence; an OCI cross-partition phase (Tag, Untag, Resolve against Delete and re-Push of the same descriptor) is judged by a combined per-descriptor linearizability model, a quiescent no-dangling-reference / Tags-consistency invariant and a real-time rule; the same workloads run under the race detector.",
  note="Concurrent-phase relaxations (statement is silent on results of overlapping writes): a Push linearized onto identical bytes may return nil or already-exists; an Untag linearized onto an untagged reference may return nil or not-found. Unjudged: a file-store name held by other bytes (only 'never wrong bytes'), the AutoGC cascade (C09), reopen (C08). Trusted: porcupine v1.3.0, the harness model, go-digest. One known finding (plain descriptor accepted although present via a named file) is listed.",
  tech="runtime monitoring: model-based sequential oracle, porcupine linearizability check of recorded histories, hook jitter, Go race detector"),
 "C14": dict(cat="exploration",
  text="Seeded concurrent rounds (4-32 goroutines pushing and deleting distinct referrers of 1-3 subjects through one Repository against a spec-following registry model without the Referrers API, with seeded delays and injected failures of the n-th index GET/PUT/DELETE, dirty pre-existing indexes, SkipReferrersGC on and off, mid-run capability flips). At quiescence Referrers/Predecessors must equal the acknowledged live set and the model's own referrers computation; no unexcused dangling or dirty index may remain; every failed index DELETE must be reported as a referrers-index-delete error after the new index is in place; the detected capability never changes; the same rounds run under the Go race detector.",
  note="Trusts regmodel as the spec-following registry and its ReferrersOf as the API answer. Acknowledged means nil, or for push a ReferrersError with IsReferrersIndexDelete; operations returning other errors are unjudged. Interleavings are sampled; distinct per-tag batch traces are counted. A hang verdict is reached only from goroutine states, never from the clock.",
  tech="runtime monitoring: concurrent stress with fault and latency injection at the HTTP boundary, quiescence oracle, race detector"),
 "C15": dict(cat="exploration",
  text="The real Repository.Tags, Registry.Repositories, Repository.Referrers (API and referrers-tag paths) and oci Store/ReadOnlyStore.Tags run on seeded cases against a scripted loopback registry that varies item list, last, client n, server page-size sequence including empty pages, n honoured or ignored, continuation style, link-target forms and spellings, rel values, extra link parameters, artifactType filter modes, a callback failing on its j-th call, MaxMetadataBytes with bodies sized limit-1/limit/limit+1/>>limit, and Content-Length vs chunked. The callback concatenation is compared with the registry's own list, traffic after the final page or after a callback failure is refused, bytes read from every 200 body are counted in the client RoundTripper, and an over-long document must give an error with exactly the earlier pages.",
  note="The scripted registry is trusted and self-consistent. A body over the limit only through white space after a JSON value that fits is not judged for error-vs-success (counted). Every link value sent carries rel. Cases are sampled, not exhaustive.",
  tech="runtime monitoring: scripted paginating registry over loopback HTTP, counting resp.Body wrapper, model comparison"),
 "C09": dict(cat="exploration",
  text="Seeded histories on a real oci.Store inside worker processes: random DAGs (<= 80 nodes) with referrer chains, referrers of untagged/absent/garbage subjects, indexes with and without subject, shared blobs, foreign layers, stray files, moved tags, tagged referrers and tagged blobs. On small stores every node is tried as Delete target (AutoGC on, off, and after a GC) and GC runs after every prefix of the set-up history, each on a freshly rebuilt store; larger stores get random 6-25 operation histories. Exists, Resolve, Tags, Predecessors and the recursive blobs/ listing before vs after are compared with the statement's GC model (removed and kept sets exact, current tags). Termination of GC is decided by a per-manifest step count at the hook oci.gcIndex.subjectStep with a CPU-time bound as backstop.",
  note="Trusted base: the generator's own edge and subject lists; 'indexed' is read from index.json before the call; one media type per digest; reachability for GC is the least fixpoint. Unjudged: an untagged referrer of removed content that a surviving node still links to (statement contradicts itself there). A wall-clock watchdog alone is inconclusive.",
  tech="runtime monitoring: reference-model differential oracle over randomized and small-exhaustive histories, hook-counter / CPU-time termination monitor"),
 "C11": dict(cat="exploration",
  text="Every case runs in a worker process jailed in a fresh sandbox (cwd and TMPDIR inside it); a default-options file.Store receives one or more pushes (archives to unpack, named blobs, manifests that restore a titled layer) and everything outside the working directory is snapshotted before and after each push (type, permission bits, SHA-256, link target). All tar entry sequences up to length 3 (quick) / 4 (thorough) over a 24-entry vocabulary are enumerated, together with all title segment sequences, vocabulary sequences followed by 13 follow-up pushes, random and corpus-mutated sequences up to 10 entries and a regression corpus; a push whose title, entry name or link target is lexically outside must return an error.",
  note="Default options only; times and link counts of outside objects are not judged. Pre-existing links in the working directory point inside only. Linux, root, single file system. Trusted base: the harness's snapshot and diff code. Exhaustive only over the stated vocabulary and lengths.",
  tech="runtime monitoring: sandboxed file-system snapshot-diff monitor, bounded-exhaustive plus random tar/title generation"),
 "C08": dict(cat="exploration",
  text="Seeded random operation histories (Push, bad push, Tag, re-tag, Untag, Delete, GC, SaveIndex; AutoSaveIndex and AutoGC on/off; annotated descriptors, tags on blobs, odd reference names) over random Merkle DAGs run on the real oci.Store. After every step the raw directory is validated against the on-disk clauses (oci-layout and index.json parse, blobs named by their digest, named index entries point to existing blobs of the recorded size) and the full public-API observable state of the original (Tags, Resolve by tag and by digest, Exists, Fetch, Predecessors) is compared with the same directory reopened read-write, through fs.FS and from tar archives written by archive/tar and by the system tar. Tag descriptors carry annotations, platform, artifactType, urls and data. A concurrent Tag/Untag/Push sub-phase is judged at quiescence (original = reopened), also under the Go race detector.",
  note="One media type per digest; Tag descriptors carry the true media type and size. Schedules of the concurrent sub-phase are sampled (yield hook at oci.tag.beforeSaveIndex), not enumerated. With AutoSaveIndex off the layout is judged only after SaveIndex. Trusted base: the harness validator (go-digest, encoding/json), archive/tar, the system tar. Held on the histories explored.",
  tech="runtime monitoring: on-disk layout validator + differential observation of original vs reopened stores over seeded histories"),
 "C10": dict(cat="fault_enumeration",
  text="For each of 44 hand-scripted and 56 (quick) / 1500 (thorough) seeded histories, every file-system-mutating system call inside the one interrupted operation (Push, Tag, Untag, Delete with and without cascade, SaveIndex, GC) is a crash point: a ptrace supervisor kills the process at the entry of the k-th such call for every k, each on a fresh copy of the prepared directory. Every crashed directory is reopened by a fresh untraced process and checked in full (opens, blobs hash to their names, every index entry names an existing blob, tag mapping equals the before or the after mapping obtained from uninterrupted runs, effects of returned operations present).",
  note="Process crash, not power loss: completed writes are visible after the kill. One interrupted operation per history, issued from one goroutine. Exhaustive per history (every enumeration reaches a completed run). Trusted base: tools/crashat.c (counted syscall set; close not counted), Linux ptrace semantics, the layout validator.",
  tech="runtime monitoring: ptrace crash-point injection at every FS-mutating syscall + fresh-process oracle on the crashed directory"),
 "C16": dict(cat="exploration",
  text="Seeded random histories and hook-synchronised concurrent mixes of one auth.Client against 2-4 modelled registry hosts and token services (Basic, Bearer via distribution GET and OAuth2 POST flows, realms on own or foreign hosts, scheme changes, scope hints, challenge scope strings in any order/duplication) for every cache flavour. Every request at the innermost transport is scanned for every secret in the world and judged for host, scheme and canonical scope set (independent canonicaliser); every returned response is matched with the registry model's last answer (non-401, at most 3 sends, at most 1 token fetch). Coalescing is made deterministic by holding the token endpoint or credential helper until all concurrent requests have entered Cache.Set, then owners or waiters have their contexts ended. The concurrent workload also runs under the race detector.",
  note="The in-process transport emulates net/http's context-error behaviour. Scope-set equality is demanded for NewCache and no cache only (the single-context cache is host-keyed by documentation). Valid credentials means the client's secrets are the ones the model accepts. Interleavings are sampled; late-arrival coalescing is counted, never demanded.",
  tech="runtime monitoring: secret/token monitor at the innermost RoundTripper plus response oracle, hook-barrier concurrency, race detector"),
 "C05": dict(cat="exploration",
  text="Seeded cases over 15 descriptor classes (right/wrong digest, short/long/zero/negative size, malformed and unsupported algorithms) x 15 reader-behaviour classes (chunkings, 0-byte reads, n>0 with EOF, errors before/at/after Size, early EOF, trailing bytes) x 13 store kinds and APIs (memory, size-limited and caching wrappers, OCI Store and Storage, file store named and fallback, ReadAll, FetchAll, VerifyReader, CopyBuffer); each case is judged by predicates computed from the case values alone (refused push leaves Exists false, Fetch failing and blobs/ unchanged; data handed back only when length and digest match; bytes beyond Size are an error). Concurrent cases push good, bad and trailing content under one digest while fetchers re-hash everything they can read, also under the race detector.",
  note="Trusted base: Go's crypto hashes and the harness's hostile reader. Push outcome is not judged, only consistency, when the first Size bytes match and the reader then delivers more or fails (the statement leaves it open). ingest/ leftovers are recorded, not judged. Content up to about 1 MiB; interleavings sampled.",
  tech="runtime monitoring: hostile-input generation with statement-derived oracle, concurrent stress plus Go race detector"),
 "C18": dict(cat="fault_enumeration",
  text="For each scripted case (document, prefix operations, one Put or Delete) the operation runs in a child process under the ptrace tool crashat and is killed before each of its file-system-mutating system calls in turn, exhaustively per case; after every kill the config file must be semantically the complete old or the complete new document with owner-only mode. Two exploration phases run as well: random pre-existing documents x Put/Get/Delete/reopen histories checked step by step against a reference model (round trip, untouched keys and entries preserved by semantic JSON equality, mode 0600), and 4-16 goroutines per store checked with porcupine per address plus a concurrent file reader demanding a complete file at every instant, also under the race detector.",
  note="Crash points are the syscall entries recognised by tools/crashat.c; a kill inside a single write(2) is not explored (the data goes to a temp file). Strings are valid UTF-8; pre-existing documents are well-formed docker configs. Interleavings sampled. Trusted base: the reference model, semantic JSON compare, porcupine, crashat.",
  tech="runtime monitoring: model-based oracle + ptrace crash-point enumeration + porcupine linearizability check + race detector"),
 "C19": dict(cat="exploration",
  text="Seeded option sets drive the real PackManifest and Pack (versions 1.0/1.1/unsupported; artifact types valid, invalid by each RFC 6838 rule and at boundary lengths; config descriptor / annotations / neither; layers nil/empty/many; subject; created absent/valid/malformed) against memory, OCI-layout, file, registry-model and pusher-only targets, each wrapped in a Push/Exists recorder. Successful results are fetched back, strictly decoded and compared field by field with an independent builder of the documented mapping; invented blobs must exist, the result must CopyGraph into an empty store, fixed-created repeats must be identical; documented rejections must leave no Push (no manifest Push for a malformed created time).",
  note="Held on the sampled option sets. Created values are judged only when clearly valid or clearly malformed (parser-vs-RFC edges such as a one-digit hour are unjudged). Trusted base: the hand-written RFC 6838 / RFC 3339 recognisers, the independent builder, the registry model.",
  tech="runtime monitoring: recording storage wrapper + independent builder oracle over seeded inputs"),
 "C20": dict(cat="exploration",
  text="Bounded-exhaustive differential monitoring of the real ParseReference / Reference.String / Repository.ParseReference against an independent hand-written grammar recogniser: every sequence of <=6 (quick) / <=7 (thorough) tokens of an 18-token vocabulary reaching all four forms, every string of <=5/<=6 characters over 14 characters, a digest grid, plus 10^6/10^7 seeded random and mutated references with boundary lengths. Seeded Repository bases x reference forms are driven through the request-issuing operations with a recording RoundTripper that judges every URL (scheme, host, exact /v2/<repo>/<kind>/<ref> path, no query or fragment).",
  note="Held on the strings enumerated. Acceptance is not judged for strings ending in a bare ':'/'@' and for registries only net/url can adjudicate (as the property says); parts and round trip are still checked whenever the library accepts. Trusted base: the recogniser, go-digest's registered algorithms, the canned-response RoundTripper.",
  tech="runtime monitoring: bounded-exhaustive + random differential execution against an independent recogniser; recording HTTP transport"),
}

PENDING_REASON = "check under construction in this session (not yet claimed); the technique applies"

def main():
    checks = []
    for pid in ALL:
        c = CHECKS.get(pid)
        if not c or not os.path.isdir(os.path.join(ROOT, "harness", "cmd", pid.lower())):
            continue
        checks.append({
            "property_id": pid,
            "quick_cmd": "./check %s quick" % pid,
            "thorough_cmd": "./check %s thorough" % pid,
            "evidence_file": "/verif/evidence/%s.json" % pid,
            "replay_cmd_template": "cat {path}",
            "engine": "harness/cmd/%s" % pid.lower(),
            "level_claimed": {"category": c["cat"], "text": c["text"], "design_ref": "DESIGN.md §3 %s" % pid},
            "level_note": c["note"],
            "technique": c["tech"],
        })
    hooks = subprocess.run(["git", "-C", "/repo", "log", "--format=%h %s"], capture_output=True, text=True).stdout.splitlines()
    hook_commits = [l.split()[0] for l in hooks if l.split(" ", 1)[1].startswith("verif hooks")]
    m = {
        "version": 1,
        "setup_cmd": "cd /verif && mkdir -p .bin evidence && gcc -O2 -o .bin/crashat tools/crashat.c && cd harness && GOFLAGS=-mod=mod GOPROXY=off GOSUMDB=off GOTOOLCHAIN=local go build -tags verif ./...",
        "hooks": {
            "guard": "verif",
            "enable": "go build -tags verif in /verif/harness (module replaces oras.land/oras-go/v2 => /repo); hook package /repo/internal/verifhook (At/AtKey no-ops without the tag)",
            "baseline_off_cmd": "cd /repo && GOFLAGS=-mod=mod GOPROXY=off GOSUMDB=off GOTOOLCHAIN=local go test -vet=off -count=1 -timeout 25m ./...",
            "source_commits": list(reversed(hook_commits)),
            "add_only": True,
        },
        "engines": [{"name": "harness", "path": "/verif/harness", "serves_properties": [c["property_id"] for c in checks],
                     "kind_free_text": "Go module of runtime monitors: seeded generators, reference models, registry/auth models, storage wrappers, worker-process supervisor, ptrace crash injector"}],
        "checks": checks,
        "notes": "All checks are runtime monitors over executions of the real library (see DESIGN.md). ./check <ID> <tier> rebuilds from /repo's working tree with -tags verif.",
        "not_applicable": [{"property_id": p, "reason": PENDING_REASON} for p in ALL if p not in [c["property_id"] for c in checks]],
    }
    tmp = os.path.join(ROOT, "MANIFEST.json.tmp")
    json.dump(m, open(tmp, "w"), indent=1, ensure_ascii=False)
    os.rename(tmp, os.path.join(ROOT, "MANIFEST.json"))
    print("checks:", [c["property_id"] for c in checks])

if __name__ == "__main__":
    main()
