#!/bin/bash
# Confirms seeded defects produced by an independent agent and runs the property's check against each.
# usage: tools/confirm_seeds3.sh <ID> <agent-worktree> [tag e.g. r2-] [checks-to-run (default: ID)]
# For every <agent-worktree>/.seeded/<k>/ : fresh worktree of /repo HEAD, apply patch, build, run the
# repository suite, run the demo (must fail), run the check(s) through -overlay (never touching /repo),
# un-apply, run the demo again (must pass). Results -> /verif/seeded/<ID>-<k>/ (patch, demo, meta, confirm.json).
set -u
ID=$1; SRC=$2; TAG=${3:-}; CHECKS=${4:-$ID}
export GOFLAGS=-mod=mod GOPROXY=off GOSUMDB=off GOTOOLCHAIN=local
for d in "$SRC"/.seeded/[0-9]*; do
  k=$(basename "$d"); [ -f "$d/patch.diff" ] || continue
  out=/verif/seeded/$ID-$TAG$k; mkdir -p "$out"
  cp "$d"/patch.diff "$out"/; cp "$d"/meta.json "$out"/agent_meta.json 2>/dev/null
  for f in "$d"/demo_test.go "$d"/demo; do [ -e "$f" ] && cp -r "$f" "$out"/; done
  WT=$(mktemp -d /tmp/cs-$ID-$TAG$k-XXXX); rmdir "$WT"
  git -C /repo worktree add --detach "$WT" HEAD >/dev/null 2>&1
  applies=no; builds=no; suite="not run"; demo_with="not run"; demo_without="not run"
  if git -C "$WT" apply "$out/patch.diff" 2>"$out/apply.err"; then applies=yes; fi
  demo_cmd=$(python3 -c "import json,sys;print(json.load(open('$out/agent_meta.json')).get('demo_cmd',''))" 2>/dev/null)
  if [ $applies = yes ]; then
    (cd "$WT" && go build ./... 2>"$out/build.err") && builds=yes
    if [ $builds = yes ]; then
      fails=$(cd "$WT" && go test -count=1 ./... 2>&1 | grep -- "^--- FAIL" | grep -v TestStore_Dir_OverwriteSymlink_RemovalFailed | tr '\n' ' ')
      if [ -z "$fails" ]; then suite=pass; else suite="FAIL: $fails"; fi
      # demo with patch (expects failure)
      if [ -f "$out/demo_test.go" ]; then
        pkgline=$(grep -m1 '^package ' "$out/demo_test.go" | awk '{print $2}')
        ddir=$(python3 -c "
import json,re
m=json.load(open('$out/agent_meta.json'))
c=m.get('demo_cmd','')
r=re.search(r'cp\s+\S+\s+(\S+)/[^/\s]+_test\.go',c)
d=m.get('demo_dir') or (r.group(1) if r else '.')
print(d[2:] if d.startswith('./') else d)" 2>/dev/null); [ -z "$ddir" ] && ddir=.
        cp "$out/demo_test.go" "$WT/$ddir/zz_seeded_demo_test.go"
        (cd "$WT/$ddir" && timeout 600 go test -count=1 -run 'Seed|Demo' . >"$out/demo_with.log" 2>&1) && demo_with="pass(unexpected)" || demo_with=fail
      fi
      # overlay for the checks
      ov="{\"Replace\":{"; first=1
      for f in $(git -C "$WT" diff --name-only); do
        [ $first = 1 ] || ov="$ov,"; first=0; ov="$ov\"/repo/$f\":\"$WT/$f\""
      done
      ov="$ov}}"; echo "$ov" > "$WT/.ov.json"
      for C in $CHECKS; do
        c=$(echo $C | tr A-Z a-z); R=$(mktemp -d /tmp/csroot-XXXX); mkdir -p $R/evidence; cp /verif/known_findings.json $R/
        (cd /verif/harness && go build -tags verif -overlay "$WT/.ov.json" -o "$R/$c" ./cmd/$c 2>"$out/check_build_$C.err")
        if [ -x "$R/$c" ]; then
          VERIF_ROOT=$R VERIF_TIER=${SEED_TIER:-quick} VERIF_SEED=1 VERIF_CRASHAT=/verif/.bin/crashat "$R/$c" >"$out/check_$C.log" 2>&1; rc=$?
          echo "$C exit=$rc $(grep -c '^VIOLATION' "$out/check_$C.log") violations; first: $(grep -m1 'key=' "$out/check_$C.log")" >> "$out/detection.txt"
        else echo "$C check build failed" >> "$out/detection.txt"; fi
        rm -rf "$R"
      done
      # demo without patch
      git -C "$WT" checkout -- . 2>/dev/null; git -C "$WT" apply -R "$out/patch.diff" 2>/dev/null
      if [ -f "$out/demo_test.go" ]; then
        (cd "$WT/$ddir" && timeout 600 go test -count=1 -run 'Seed|Demo' . >"$out/demo_without.log" 2>&1) && demo_without=pass || demo_without="fail(unexpected)"
      fi
    fi
  fi
  git -C /repo worktree remove --force "$WT" >/dev/null 2>&1; rm -rf "$WT"
  python3 - "$out" "$ID" "$k" "$applies" "$builds" "$suite" "$demo_with" "$demo_without" <<'PY'
import json,sys,os
out,ID,k,applies,builds,suite,dw,dwo=sys.argv[1:]
am={}
try: am=json.load(open(out+'/agent_meta.json'))
except Exception: pass
det=open(out+'/detection.txt').read().strip().split('\n') if os.path.exists(out+'/detection.txt') else []
meta={"property":ID,"seed":k,"title":am.get("title"),"what_breaks":am.get("what_breaks"),"needs":am.get("needs"),"files":am.get("files"),
 "confirmed":{"applies_to_current_HEAD":applies,"builds":builds,"repo_suite_with_patch":suite,"demo_with_patch":dw,"demo_without_patch":dwo},
 "what_i_ran":["fresh git worktree of /repo HEAD","git apply patch.diff","go build ./...","go test -count=1 ./... (known always-failing test ignored)","demo with patch","check binaries built with -overlay of the patched files, quick tier, seed 1","git apply -R","demo without patch"],
 "detection":det}
json.dump(meta,open(out+'/meta.json','w'),indent=1)
print(ID,k,meta["confirmed"],det)
PY
done
