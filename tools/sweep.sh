#!/bin/bash
# silence sweep: tools/sweep.sh <tier> "<ids>" "<seeds>"   -> one line per run on stdout
TIER=$1; IDS=$2; SEEDS=$3
cd "$(dirname "$0")/.."
for s in $SEEDS; do for c in $IDS; do
  out=$(VERIF_SEED=$s ./check $c $TIER 2>&1); rc=$?
  echo "$c seed=$s rc=$rc $(echo "$out" | grep -E "^C[0-9]+ (quick|thorough)" | tail -1 | cut -d: -f2-) $(echo "$out" | grep -c '^VIOLATION') viol $(echo "$out" | grep -c 'KNOWN-FINDING') known $(echo "$out" | grep -m1 BROKEN)"
  echo "$out" | grep -A1 "^VIOLATION" | head -4
done; done
