#!/bin/bash
# For every "fixed" entry of known_findings.json: revert that fix: commit in a scratch worktree of /repo HEAD
# (git revert --no-commit), build the property's check with -overlay of the reverted files and run it (quick, seed 1).
# The check must report a violation again (a fixed entry suppresses nothing). Output: scratch/reverts.txt
set -u
export GOFLAGS=-mod=mod GOPROXY=off GOSUMDB=off GOTOOLCHAIN=local
cd /verif; mkdir -p scratch; : > scratch/reverts.txt
python3 - <<'PY' > scratch/reverts.jobs
import json
seen=set()
for f in json.load(open('/verif/known_findings.json'))['findings']:
    if f.get('status')!='fixed': continue
    for c in str(f.get('commit','')).replace(',','+').replace(' ','+').split('+'):
        c=c.strip()
        if c and (c,f['property']) not in seen:
            seen.add((c,f['property'])); print(c,f['property'])
PY
while read c P; do
  p=$(echo $P | tr A-Z a-z)
  WT=$(mktemp -d /tmp/rv-XXXX); rmdir $WT; git -C /repo worktree add --detach $WT HEAD >/dev/null 2>&1
  if ! git -C $WT revert --no-commit $c >/dev/null 2>&1; then
    echo "$c $P revert-conflicts-with-later-commits" >> scratch/reverts.txt
    git -C $WT revert --abort >/dev/null 2>&1; git -C /repo worktree remove --force $WT >/dev/null 2>&1; rm -rf $WT; continue
  fi
  ov="{\"Replace\":{"; first=1
  for f in $(git -C $WT diff --cached --name-only; git -C $WT diff --name-only); do
    case $f in *_test.go) continue;; esac
    [ $first = 1 ] || ov="$ov,"; first=0; ov="$ov\"/repo/$f\":\"$WT/$f\""
  done
  echo "$ov}}" > $WT/.ov.json
  R=$(mktemp -d /tmp/rvroot-XXXX); mkdir -p $R/evidence; cp /verif/known_findings.json $R/
  if (cd /verif/harness && go build -tags verif -overlay $WT/.ov.json -o $R/$p ./cmd/$p 2>$R/build.err); then
    VERIF_ROOT=$R VERIF_TIER=quick VERIF_SEED=1 VERIF_CRASHAT=/verif/.bin/crashat timeout 1800 $R/$p > $R/log 2>&1; rc=$?
    echo "$c $P exit=$rc $(grep -c '^VIOLATION' $R/log) violations; first: $(grep -m1 'key=' $R/log | cut -c1-140)" >> scratch/reverts.txt
  else
    echo "$c $P build-failed: $(head -c 200 $R/build.err)" >> scratch/reverts.txt
  fi
  git -C /repo worktree remove --force $WT >/dev/null 2>&1; rm -rf $WT $R
done < scratch/reverts.jobs
echo done >> scratch/reverts.txt
