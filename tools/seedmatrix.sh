#!/bin/bash
# re-runs every confirmed seeded change against the check(s) that caught it (regression of the detectors)
# usage: tools/seedmatrix.sh [parallel]   -> scratch/matrix.txt
P=${1:-4}
cd /verif
python3 - <<'PY' > scratch/matrix.jobs
import glob,os,re
for d in sorted(glob.glob('/verif/seeded/C*-*')):
    n=os.path.basename(d)
    det=[l for l in open(d+'/detection.txt').read().split('\n') if 'exit=1' in l] if os.path.exists(d+'/detection.txt') else []
    checks=sorted(set(l.split()[0].split('(')[0] for l in det))
    for c in checks:
        race = any(('key=race' in l or 'key=harness:race' in l) and l.startswith(c) for l in det)
        print(n,c,1 if race else 0)
PY
cat scratch/matrix.jobs | SC_NOAPPEND=1 xargs -P $P -L 1 sh -c 'r=$(SC_NOAPPEND=1 SC_RACE=$2 tools/seedcheck.sh $0 $1 2>/dev/null | tail -1); echo "$0 $r"' > scratch/matrix.txt 2>&1
echo done >> scratch/matrix.txt
