#!/bin/bash
# validates MANIFEST.json and every evidence file against the schemas
python3-vt - <<'PY'
import json,jsonschema,glob
jsonschema.validate(json.load(open('/verif/MANIFEST.json')),json.load(open('/root/.vp/MANIFEST.schema.json')))
es=json.load(open('/root/.vp/EVIDENCE.schema.json'))
for f in sorted(glob.glob('/verif/evidence/*.json')):
    try:
        jsonschema.validate(json.load(open(f)),es); print('ok',f)
    except Exception as e: print('INVALID',f,str(e)[:200])
PY
