#!/usr/bin/env python3
"""Prints the markdown table of seeded changes and detection results from /verif/seeded/*/meta.json + detection.txt."""
import json,glob,os,re
rows=[]
for d in sorted(glob.glob('/verif/seeded/C*-*'), key=lambda p:(p.split('/')[-1].split('-')[0], int(p.split('-')[-1]))):
    n=os.path.basename(d)
    try: m=json.load(open(d+'/meta.json'))
    except Exception: continue
    det=[l for l in open(d+'/detection.txt').read().strip().split('\n') if l.strip()] if os.path.exists(d+'/detection.txt') else []
    first=det[0] if det else ''
    caught=[l for l in det if 'exit=1' in l]
    missed_first = bool(det) and 'exit=1' not in first
    by=sorted(set(l.split()[0].split('(')[0] for l in caught))
    key=''
    if caught:
        mm=re.search(r'key=(\S+)',caught[-1]); key=mm.group(1) if mm else ''
    title=(m.get('title') or '').replace('|','/')
    if len(title)>150: title=title[:147]+'...'
    status = ('missed at first; caught by a strengthened or sibling check' if (missed_first and caught) else ('caught' if caught else 'NOT caught'))
    rows.append('| %s | %s | %s | %s `%s` |'%(n,title,status,','.join(by),key[:70]))
print('| Seed | Change | Result (quick tier) | Caught by / first key |')
print('|---|---|---|---|')
print('\n'.join(rows))
