#!/bin/bash
# re-runs the demonstration of a seeded change with and without the patch: tools/redemo.sh <seeded-dir-name>
set -u
S=/verif/seeded/$1
export GOFLAGS=-mod=mod GOPROXY=off GOSUMDB=off GOTOOLCHAIN=local
ddir=$(python3 -c "
import json,re
m=json.load(open('$S/agent_meta.json'))
d=m.get('demo_dir')
if not d:
    r=re.search(r'cp\s+\S+\s+(\S+)/[^/\s]+_test\.go',m.get('demo_cmd',''))
    d=r.group(1) if r else '.'
print(d[2:] if d.startswith('./') else d)")
WT=$(mktemp -d /tmp/rd-XXXX); rmdir $WT; git -C /repo worktree add --detach $WT HEAD >/dev/null 2>&1
cp $S/demo_test.go $WT/$ddir/zz_seeded_demo_test.go
(cd $WT/$ddir && timeout 900 go test -count=1 -run 'Seed|Demo' . > $S/demo_without.log 2>&1) && wo=pass || wo="fail(unexpected)"
git -C $WT apply $S/patch.diff
(cd $WT/$ddir && timeout 900 go test -count=1 -run 'Seed|Demo' . > $S/demo_with.log 2>&1) && wi="pass(unexpected)" || wi=fail
git -C /repo worktree remove --force $WT >/dev/null 2>&1; rm -rf $WT
python3 - "$S" "$wi" "$wo" "$ddir" <<'PY'
import json,sys
S,wi,wo,dd=sys.argv[1:]
m=json.load(open(S+'/meta.json')); m['confirmed']['demo_with_patch']=wi; m['confirmed']['demo_without_patch']=wo; m['demo_dir']=dd
json.dump(m,open(S+'/meta.json','w'),indent=1); print(S.split('/')[-1],'with:',wi,'without:',wo)
PY
