#!/bin/bash
# Sensitivity helper: run a check against a mutated copy of one /repo file via -overlay.
# usage: tools/mut.sh <ID> <repo-relative-file> <python-snippet-editing-variable-s> [tier]
#   e.g. tools/mut.sh C02 copy.go 's=s.replace("case <-done:","default:")'
# Nothing in /repo or /verif/evidence is touched; output goes to a temp VERIF_ROOT that is removed.
set -u
ID=$1; FILE=$2; PY=$3; TIER=${4:-quick}
id=$(echo "$ID" | tr 'A-Z' 'a-z')
T=$(mktemp -d /tmp/mut-XXXXXX)
trap 'rm -rf "$T"' EXIT
mkdir -p "$T/root/evidence" "$T/src"
cp /verif/known_findings.json "$T/root/"
python3 - "$FILE" "$T/src/$(basename $FILE)" <<PYEOF
import sys
s=open('/repo/'+sys.argv[1]).read()
orig=s
$PY
assert s!=orig, "mutation did not change the file"
open(sys.argv[2],'w').write(s)
PYEOF
[ $? -eq 0 ] || { echo "MUTATION-FAILED-TO-APPLY"; exit 3; }
echo "{\"Replace\":{\"/repo/$FILE\":\"$T/src/$(basename $FILE)\"}}" > "$T/ov.json"
export GOFLAGS=-mod=mod GOPROXY=off GOSUMDB=off GOTOOLCHAIN=local
cd /verif/harness
go build -tags verif -overlay "$T/ov.json" -o "$T/$id" ./cmd/$id || { echo "MUTANT-DOES-NOT-COMPILE"; exit 4; }
if [ -f cmd/$id/RACE ] && [ "${MUT_RACE:-0}" = 1 ]; then
  go build -race -tags verif -overlay "$T/ov.json" -o "$T/$id.race" ./cmd/$id && export VERIF_RACE_BIN="$T/$id.race"
fi
if [ "${MUT_REPOTESTS:-0}" = 1 ]; then
  pkg=$(dirname "$FILE"); (cd /repo && go test -count=1 -overlay "$T/ov.json" ./$pkg/ 2>&1 | tail -3)
fi
export VERIF_ROOT="$T/root" VERIF_TIER=$TIER VERIF_SEED=${VERIF_SEED:-1} VERIF_CRASHAT=/verif/.bin/crashat
"$T/$id" 2>&1 | grep -E "VIOLATION|KNOWN|BROKEN|key=|seed=" | head -${MUT_LINES:-8}
echo "exit=${PIPESTATUS[0]}"
