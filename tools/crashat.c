/*
 * crashat — ptrace crash-point injector (DESIGN.md §3 C10, C18).
 *
 *   crashat K logfile -- prog args...
 *
 * Runs prog under ptrace following all threads and children. The traced
 * program brackets the operation under test with marker system calls
 * ioctl(-1, 0x56455249, 1) ... ioctl(-1, 0x56455249, 2) (harmless EBADF).
 * Between the markers every *entry* into a file-system-mutating system call
 * (open/openat/creat with write intent or O_CREAT, write/pwrite64/writev on
 * fds > 2, rename*, unlink*, mkdir*, rmdir, chmod*, link*, symlink*,
 * truncate/ftruncate, fsync/fdatasync, copy_file_range, sendfile, splice, pwritev*, fallocate) is
 * counted across all threads.
 *   K == 0: run to completion, print "COUNT n" and the call sequence to logfile.
 *   K >= 1: SIGKILL the whole process while the K-th counted call is stopped at
 *           entry, so that call and everything after it never happen.
 * Exit status: 0 completed (K==0 or K > count), 10 killed at K, 1 tool error,
 * 20+ the program's own failure.
 */
#define _GNU_SOURCE
#include <errno.h>
#include <fcntl.h>
#include <signal.h>
#include <stdio.h>
#include <stdlib.h>
#include <string.h>
#include <sys/ptrace.h>
#include <sys/syscall.h>
#include <sys/types.h>
#include <sys/wait.h>
#include <unistd.h>

#define MARK 0x56455249UL

static const char *name_of(long nr) {
    switch (nr) {
    case SYS_open: return "open"; case SYS_openat: return "openat"; case SYS_creat: return "creat";
    case SYS_write: return "write"; case SYS_pwrite64: return "pwrite64"; case SYS_writev: return "writev";
    case SYS_rename: return "rename"; case SYS_renameat: return "renameat"; case SYS_renameat2: return "renameat2";
    case SYS_unlink: return "unlink"; case SYS_unlinkat: return "unlinkat";
    case SYS_mkdir: return "mkdir"; case SYS_mkdirat: return "mkdirat"; case SYS_rmdir: return "rmdir";
    case SYS_chmod: return "chmod"; case SYS_fchmod: return "fchmod"; case SYS_fchmodat: return "fchmodat";
    case SYS_link: return "link"; case SYS_linkat: return "linkat";
    case SYS_symlink: return "symlink"; case SYS_symlinkat: return "symlinkat";
    case SYS_truncate: return "truncate"; case SYS_ftruncate: return "ftruncate";
    case SYS_fsync: return "fsync"; case SYS_fdatasync: return "fdatasync";
    case SYS_copy_file_range: return "copy_file_range"; case SYS_sendfile: return "sendfile"; case SYS_splice: return "splice";
    case SYS_pwritev: return "pwritev"; case SYS_pwritev2: return "pwritev2"; case SYS_fallocate: return "fallocate";
    }
    return NULL;
}

/* returns 1 when the call at entry can mutate the file system */
static int counted(struct __ptrace_syscall_info *si) {
    long nr = si->entry.nr;
    if (!name_of(nr)) return 0;
    switch (nr) {
    case SYS_open: {
        long fl = si->entry.args[1];
        return (fl & (O_WRONLY | O_RDWR | O_CREAT | O_TRUNC)) != 0;
    }
    case SYS_openat: {
        long fl = si->entry.args[2];
        return (fl & (O_WRONLY | O_RDWR | O_CREAT | O_TRUNC)) != 0;
    }
    case SYS_write: case SYS_pwrite64: case SYS_writev:
        return (long)si->entry.args[0] > 2; /* not stdio; pipes/eventfds of the runtime are filtered below */
    }
    return 1;
}

/* is fd of pid a regular file or directory (not a pipe / socket / eventfd)? */
static int fd_is_file(pid_t pid, long fd) {
    char p[64], buf[256];
    snprintf(p, sizeof p, "/proc/%d/fd/%ld", pid, fd);
    ssize_t n = readlink(p, buf, sizeof buf - 1);
    if (n <= 0) return 1;
    buf[n] = 0;
    return buf[0] == '/';
}

int main(int argc, char **argv) {
    if (argc < 5 || strcmp(argv[3], "--")) {
        fprintf(stderr, "usage: crashat K logfile -- prog args...\n");
        return 1;
    }
    long K = atol(argv[1]);
    FILE *lg = fopen(argv[2], "w");
    if (!lg) { perror("logfile"); return 1; }

    pid_t child = fork();
    if (child < 0) { perror("fork"); return 1; }
    if (child == 0) {
        ptrace(PTRACE_TRACEME, 0, 0, 0);
        raise(SIGSTOP);
        execvp(argv[4], argv + 4);
        perror("execvp");
        _exit(127);
    }
    int st;
    if (waitpid(child, &st, 0) < 0 || !WIFSTOPPED(st)) { fprintf(stderr, "crashat: child did not stop\n"); return 1; }
    long opts = PTRACE_O_TRACESYSGOOD | PTRACE_O_TRACECLONE | PTRACE_O_TRACEFORK | PTRACE_O_TRACEVFORK | PTRACE_O_TRACEEXEC | PTRACE_O_EXITKILL;
    if (ptrace(PTRACE_SETOPTIONS, child, 0, opts) < 0) { perror("PTRACE_SETOPTIONS"); return 1; }
    ptrace(PTRACE_SYSCALL, child, 0, 0);

    int active = 0;      /* between markers */
    long count = 0;
    int killed = 0;
    int main_status = -1;
    int live = 1;

    /* Run until the thread-group leader is reaped (its exit is reported after every other thread is
     * gone). Counting live threads is not reliable: a new thread's first stop may be seen before its
     * parent's clone event, and an exit before either. */
    (void)live;
    for (;;) {
        pid_t pid = waitpid(-1, &st, __WALL);
        if (pid < 0) {
            if (errno == EINTR) continue;
            break;
        }
        if (WIFEXITED(st) || WIFSIGNALED(st)) {
            if (pid == child) { main_status = st; break; }
            continue;
        }
        if (!WIFSTOPPED(st)) continue;
        int sig = WSTOPSIG(st);
        int ev = (unsigned)st >> 16;
        if (ev == PTRACE_EVENT_CLONE || ev == PTRACE_EVENT_FORK || ev == PTRACE_EVENT_VFORK) {
            live++;
            ptrace(PTRACE_SYSCALL, pid, 0, 0);
            continue;
        }
        if (ev == PTRACE_EVENT_EXEC) { ptrace(PTRACE_SYSCALL, pid, 0, 0); continue; }
        if (sig == (SIGTRAP | 0x80)) {
            struct __ptrace_syscall_info si;
            memset(&si, 0, sizeof si);
            if (ptrace(PTRACE_GET_SYSCALL_INFO, pid, sizeof si, &si) > 0 && si.op == PTRACE_SYSCALL_INFO_ENTRY) {
                if (si.entry.nr == SYS_ioctl && (int)si.entry.args[0] == -1 && si.entry.args[1] == MARK) {
                    if (si.entry.args[2] == 1) active = 1;
                    else if (si.entry.args[2] == 2) active = 0;
                } else if (active && counted(&si)) {
                    int ok = 1;
                    long nr = si.entry.nr;
                    if (nr == SYS_write || nr == SYS_pwrite64 || nr == SYS_writev || nr == SYS_fsync || nr == SYS_fdatasync ||
                        nr == SYS_ftruncate || nr == SYS_fchmod || nr == SYS_sendfile || nr == SYS_pwritev || nr == SYS_pwritev2 ||
                        nr == SYS_fallocate)
                        ok = fd_is_file(pid, (long)si.entry.args[0]);
                    else if (nr == SYS_copy_file_range || nr == SYS_splice) /* destination fd is the third argument */
                        ok = fd_is_file(pid, (long)si.entry.args[2]);
                    if (ok) {
                        count++;
                        fprintf(lg, "%ld %s\n", count, name_of(nr));
                        if (K > 0 && count == K) {
                            kill(child, SIGKILL); /* whole thread group dies; the stopped call never runs */
                            killed = 1;
                        }
                    }
                }
            }
            if (!killed) ptrace(PTRACE_SYSCALL, pid, 0, 0);
            else ptrace(PTRACE_SYSCALL, pid, 0, 0); /* harmless: the group is already dying */
            continue;
        }
        /* new thread's initial SIGSTOP, or a real signal: pass real signals through */
        if (sig == SIGSTOP || sig == SIGTRAP) sig = 0;
        ptrace(PTRACE_SYSCALL, pid, 0, sig);
    }
    fprintf(lg, "COUNT %ld\n", count);
    fclose(lg);
    if (killed) return 10;
    if (main_status >= 0 && WIFEXITED(main_status)) {
        int c = WEXITSTATUS(main_status);
        return c == 0 ? 0 : 20 + (c & 63);
    }
    return 21;
}
