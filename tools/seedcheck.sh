#!/bin/bash
# re-runs one check against an already confirmed seeded patch: tools/seedcheck.sh <seeded-dir-name> <CHECK-ID> [tier]
set -u
S=/verif/seeded/$1; C=$2; TIER=${3:-quick}; c=$(echo $C | tr A-Z a-z)
export GOFLAGS=-mod=mod GOPROXY=off GOSUMDB=off GOTOOLCHAIN=local
WT=$(mktemp -d /tmp/sc-XXXX); rmdir $WT; git -C /repo worktree add --detach $WT HEAD >/dev/null 2>&1
# patch.diff is the change as it was made; patch_head.diff, when present, is the same change ported by hand to
# today's HEAD (a later fix: commit rewrote the same lines)
P=$S/patch.diff; [ -f $S/patch_head.diff ] && P=$S/patch_head.diff
git -C $WT apply $P || { echo "patch does not apply"; git -C /repo worktree remove --force $WT; exit 3; }
ov="{\"Replace\":{"; first=1
for f in $(git -C $WT diff --name-only); do [ $first = 1 ] || ov="$ov,"; first=0; ov="$ov\"/repo/$f\":\"$WT/$f\""; done
echo "$ov}}" > $WT/.ov.json
R=$(mktemp -d /tmp/scroot-XXXX); mkdir -p $R/evidence; cp /verif/known_findings.json $R/
(cd /verif/harness && go build -tags verif -overlay $WT/.ov.json -o $R/$c ./cmd/$c) && {
 [ -f /verif/harness/cmd/$c/RACE ] && [ "${SC_RACE:-0}" = 1 ] && (cd /verif/harness && go build -race -tags verif -overlay $WT/.ov.json -o $R/$c.race ./cmd/$c) && export VERIF_RACE_BIN=$R/$c.race
 VERIF_ROOT=$R VERIF_TIER=$TIER VERIF_SEED=${VERIF_SEED:-1} VERIF_CRASHAT=/verif/.bin/crashat $R/$c > $R/log 2>&1; rc=$?
 line="$C($TIER) exit=$rc $(grep -c '^VIOLATION' $R/log) violations; first: $(grep -m1 'key=' $R/log)"
 echo "$line"; [ "${SC_NOAPPEND:-0}" = 1 ] || echo "$line" >> $S/detection.txt
}
git -C /repo worktree remove --force $WT >/dev/null 2>&1; rm -rf $WT; if [ "${SC_KEEP:-0}" = 1 ]; then echo "kept $R"; else rm -rf $R; fi
